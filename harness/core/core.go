// Package core is the shared plumbing of every property check: run TLC on a module of
// /verif/spec, collect what it printed, record violations that were reproduced on the real
// code, match them against /verif/known_findings.json, and write the evidence file.
package core

import (
	"bufio"
	"bytes"
	"encoding/json"
	"fmt"
	"math/rand"
	"os"
	"os/exec"
	"path/filepath"
	"regexp"
	"runtime"
	"sort"
	"strconv"
	"strings"
	"sync"
	"time"
)

const (
	tlaJar  = "/opt/veriftools/tla/tla2tools.jar"
	tlaDeps = "/opt/veriftools/tla/CommunityModules-deps.jar"
)

// Infra aborts the check with exit status 2: something in the machinery (not in gmrtd) broke.
// It never prints a VIOLATION line.
func Infra(format string, a ...any) {
	fmt.Fprintf(os.Stderr, "INFRA: "+format+"\n", a...)
	os.Exit(2)
}

type KnownFinding struct {
	Property string `json:"property"`
	Key      string `json:"key"`  // exact key produced by the check for this failing input class / call site / history
	What     string `json:"what"` // human description
}

type FixedFinding struct {
	Property string `json:"property"`
	Commit   string `json:"commit"`
	What     string `json:"what"`
}

type knownFile struct {
	Findings []KnownFinding `json:"findings"`
	Fixed    []FixedFinding `json:"fixed"`
}

type Ctx struct {
	ID    string
	Tier  string
	Seed  int64
	Root  string // /verif
	Repo  string // /repo (or scratch worktree)
	Work  string // scratch dir for this run (removed on Finish)
	Level string
	Rand  *rand.Rand
	Replay string // --replay <path>: re-run only the case saved in that file (where the check supports it)

	start time.Time
	mu    sync.Mutex

	// coverage accounting
	States       int64
	Transitions  int64
	Traces       int64 // traces/behaviours validated against (or replayed into) the implementation
	Evaluations  int64
	distinct     map[string]struct{}
	Rule         string
	Samples      []any
	Extra        map[string]any
	Assumptions  []string
	Exhaustive   bool
	violations   int
	knownHit     map[string]int
	known        []KnownFinding
	violKeys     map[string]int
	maxViolPrint int
}

func New(id, tier string) *Ctx {
	seed := int64(1)
	if s := os.Getenv("VERIF_SEED"); s != "" {
		if v, err := strconv.ParseInt(s, 10, 64); err == nil {
			seed = v
		}
	}
	root := os.Getenv("VERIF_ROOT")
	if root == "" {
		root = "/verif"
	}
	repo := os.Getenv("VERIF_REPO")
	if repo == "" {
		repo = "/repo"
	}
	c := &Ctx{ID: id, Tier: tier, Seed: seed, Root: root, Repo: repo, start: time.Now(),
		Level: "model_checking", distinct: map[string]struct{}{}, Extra: map[string]any{},
		knownHit: map[string]int{}, violKeys: map[string]int{}, maxViolPrint: 20}
	c.Rand = rand.New(rand.NewSource(seed))
	work := filepath.Join(root, ".work", fmt.Sprintf("%s-%s-%d", id, tier, os.Getpid()))
	if err := os.MkdirAll(work, 0o755); err != nil {
		Infra("mkdir %s: %v", work, err)
	}
	c.Work = work
	// known findings
	var kf knownFile
	if b, err := os.ReadFile(filepath.Join(root, "known_findings.json")); err == nil {
		if err := json.Unmarshal(b, &kf); err != nil {
			Infra("known_findings.json: %v", err)
		}
	}
	for _, f := range kf.Findings {
		if f.Property == id {
			c.known = append(c.known, f)
		}
	}
	return c
}

func (c *Ctx) Thorough() bool { return c.Tier == "thorough" }

// Pick returns q in the quick tier and t in the thorough tier.
func Pick[T any](c *Ctx, q, t T) T {
	if c.Thorough() {
		return t
	}
	return q
}

// Case counts one explored case; key identifies it for the distinct count; nontrivial says
// whether it counts as non-trivial by the rule stated in c.Rule.
func (c *Ctx) Case(key string, nontrivial bool) {
	c.mu.Lock()
	c.Evaluations++
	if nontrivial {
		c.distinct[key] = struct{}{}
	}
	c.mu.Unlock()
}

func (c *Ctx) Sample(s any) {
	c.mu.Lock()
	if len(c.Samples) < 12 {
		c.Samples = append(c.Samples, s)
	}
	c.mu.Unlock()
}

func (c *Ctx) AddTraces(n int64) { c.mu.Lock(); c.Traces += n; c.mu.Unlock() }

func (c *Ctx) Assume(s string) { c.Assumptions = append(c.Assumptions, s) }

// Violation records a contradiction between the REAL code and the property, reproduced on the
// concrete input saved in replay. key names the failing input class / call site / history and
// is what known_findings.json matches on.
func (c *Ctx) Violation(key, what string, replay any) {
	c.mu.Lock()
	defer c.mu.Unlock()
	for _, k := range c.known {
		if k.Key == key {
			if c.knownHit[key] == 0 {
				fmt.Printf("KNOWN-FINDING: property=%s %s [%s]\n", c.ID, k.What, key)
			}
			c.knownHit[key]++
			return
		}
	}
	c.violations++
	c.violKeys[key]++
	if c.violKeys[key] > 3 || len(c.violKeys) > c.maxViolPrint {
		return // same class already reported with replay files
	}
	dir := filepath.Join(c.evidenceDir(), "replays")
	_ = os.MkdirAll(dir, 0o755)
	path := filepath.Join(dir, fmt.Sprintf("%s-%s-%d.json", c.ID, sanitize(key), c.violKeys[key]))
	b, _ := json.MarshalIndent(map[string]any{"property": c.ID, "key": key, "what": what, "replay": replay, "seed": c.Seed, "tier": c.Tier}, "", " ")
	_ = os.WriteFile(path, b, 0o644)
	fmt.Printf("VIOLATION property=%s replay=%s\n", c.ID, path)
	fmt.Printf("  %s: %s\n", key, what)
}

// evidenceDir is /verif/evidence, or $VERIF_EVIDENCE_DIR when the check is run against a scratch
// worktree (binding self-tests, seeded changes) so that the committed evidence is not overwritten.
func (c *Ctx) evidenceDir() string {
	if d := os.Getenv("VERIF_EVIDENCE_DIR"); d != "" {
		return d
	}
	return filepath.Join(c.Root, "evidence")
}

func sanitize(s string) string {
	var b strings.Builder
	for _, r := range s {
		if (r >= 'a' && r <= 'z') || (r >= 'A' && r <= 'Z') || (r >= '0' && r <= '9') || r == '-' || r == '_' {
			b.WriteRune(r)
		} else {
			b.WriteByte('_')
		}
		if b.Len() > 60 {
			break
		}
	}
	return b.String()
}

func (c *Ctx) Violations() int { return c.violations }

// Finish writes the evidence file and exits.
func (c *Ctx) Finish() {
	cov := map[string]any{}
	for k, v := range c.Extra {
		cov[k] = v
	}
	cov["evaluations"] = c.Evaluations
	cov["distinct_nontrivial"] = len(c.distinct)
	cov["rule"] = c.Rule
	if len(c.Samples) == 0 {
		c.Samples = []any{"(none)"}
	}
	cov["samples"] = c.Samples
	cov["states"] = c.States
	cov["transitions"] = c.Transitions
	cov["traces_validated_against_impl"] = c.Traces
	cov["exhaustive"] = c.Exhaustive
	kh := map[string]int{}
	for k, v := range c.knownHit {
		kh[k] = v
	}
	cov["known_findings_hit"] = kh
	ev := map[string]any{
		"property_id": c.ID,
		"tier":        c.Tier,
		"seed":        c.Seed,
		"level":       c.Level,
		"coverage":    cov,
		"assumptions": c.Assumptions,
		"wall_s":      time.Since(c.start).Seconds(),
		"violations":  c.violations,
	}
	b, _ := json.MarshalIndent(ev, "", " ")
	_ = os.MkdirAll(c.evidenceDir(), 0o755)
	if err := os.WriteFile(filepath.Join(c.evidenceDir(), c.ID+".json"), b, 0o644); err != nil {
		Infra("write evidence: %v", err)
	}
	_ = os.RemoveAll(c.Work)
	// A known finding that no longer reproduces is only reported, never an error.
	for _, k := range c.known {
		if c.knownHit[k.Key] == 0 {
			fmt.Printf("NOTE: known finding not reproduced in this run: property=%s [%s]\n", c.ID, k.Key)
		}
	}
	fmt.Printf("%s %s seed=%d: evaluations=%d distinct=%d states=%d traces=%d violations=%d wall=%.1fs\n",
		c.ID, c.Tier, c.Seed, c.Evaluations, len(c.distinct), c.States, c.Traces, c.violations, time.Since(c.start).Seconds())
	if c.violations > 0 {
		os.Exit(1)
	}
	os.Exit(0)
}

// ---------------------------------------------------------------------------------------------
// TLC

type TLCOpts struct {
	Module    string            // e.g. "MC_Apdu" (file spec/MC_Apdu.tla)
	Cfg       string            // cfg file name in spec/ (default Module+".cfg"); or CfgText
	CfgText   string            // if set, written as the cfg
	Files     map[string][]byte // extra files to place next to the spec (e.g. trace.ndjson)
	Workers   int               // 0 => all cores
	Simulate  string            // e.g. "num=500" ; adds -simulate
	Depth     int
	Timeout   time.Duration
	ExtraArgs []string
	DFS       bool // StateDeque queue (trace validation with branching)
	OnLine    func(line string) // called for every stdout line that is not TLC chatter
	Deadlock  bool // check deadlock (default off: -deadlock flag passed)
}

type TLCResult struct {
	Generated int64
	Distinct  int64
	Depth     int64
	OK        bool // "Model checking completed. No error has been found."
	Errors    []string
	Output    string
	Lines     []string // user output (PrintT) lines
	Wall      time.Duration
}

var (
	reStates = regexp.MustCompile(`(\d+) states generated, (\d+) distinct states found`)
	reDepth  = regexp.MustCompile(`The depth of the complete state graph search is (\d+)`)
)

// TLC runs the model checker in a private copy of /verif/spec. An error return is an
// infrastructure problem (timeout, JVM failure, parse error); property-level results are in
// TLCResult (OK / Errors).
func (c *Ctx) TLC(o TLCOpts) (*TLCResult, error) {
	dir, err := os.MkdirTemp(c.Work, "tlc-")
	if err != nil {
		return nil, err
	}
	defer os.RemoveAll(dir)
	specs, _ := filepath.Glob(filepath.Join(c.Root, "spec", "*"))
	for _, f := range specs {
		b, err := os.ReadFile(f)
		if err != nil {
			continue
		}
		_ = os.WriteFile(filepath.Join(dir, filepath.Base(f)), b, 0o644)
	}
	for n, b := range o.Files {
		if err := os.WriteFile(filepath.Join(dir, n), b, 0o644); err != nil {
			return nil, err
		}
	}
	cfg := o.Cfg
	if o.CfgText != "" {
		cfg = o.Module + ".gen.cfg"
		_ = os.WriteFile(filepath.Join(dir, cfg), []byte(o.CfgText), 0o644)
	}
	if cfg == "" {
		cfg = o.Module + ".cfg"
	}
	workers := o.Workers
	if workers == 0 {
		workers = runtime.NumCPU()
	}
	if o.Timeout == 0 {
		o.Timeout = 10 * time.Minute
	}
	args := []string{"-XX:+UseParallelGC", "-Xss64m"}
	if o.DFS {
		args = append(args, "-Dtlc2.tool.queue.IStateQueue=StateDeque")
	}
	args = append(args, "-cp", tlaJar+":"+tlaDeps, "tlc2.TLC", "-metadir", filepath.Join(dir, "meta"),
		"-workers", strconv.Itoa(workers), "-config", cfg, "-noGenerateSpecTE")
	if !o.Deadlock {
		args = append(args, "-deadlock")
	}
	if o.Simulate != "" {
		args = append(args, "-simulate", o.Simulate)
		if o.Depth > 0 {
			args = append(args, "-depth", strconv.Itoa(o.Depth))
		}
		args = append(args, "-seed", strconv.FormatInt(c.Seed, 10))
	}
	args = append(args, o.ExtraArgs...)
	args = append(args, o.Module+".tla")
	cmd := exec.Command("java", args...)
	cmd.Dir = dir
	cmd.Env = append(os.Environ(), "JAVA_TOOL_OPTIONS=")
	stdout, err := cmd.StdoutPipe()
	if err != nil {
		return nil, err
	}
	var stderr bytes.Buffer
	cmd.Stderr = &stderr
	t0 := time.Now()
	if err := cmd.Start(); err != nil {
		return nil, err
	}
	timer := time.AfterFunc(o.Timeout, func() { _ = cmd.Process.Kill() })
	res := &TLCResult{}
	var out strings.Builder
	sc := bufio.NewScanner(stdout)
	sc.Buffer(make([]byte, 1<<20), 1<<28)
	inErr := false
	pending := ""
	for sc.Scan() {
		line := sc.Text()
		if out.Len() < 1<<22 {
			out.WriteString(line)
			out.WriteByte('\n')
		}
		if m := reStates.FindStringSubmatch(line); m != nil {
			res.Generated, _ = strconv.ParseInt(m[1], 10, 64)
			res.Distinct, _ = strconv.ParseInt(m[2], 10, 64)
			continue
		}
		if m := reDepth.FindStringSubmatch(line); m != nil {
			res.Depth, _ = strconv.ParseInt(m[1], 10, 64)
			continue
		}
		if strings.HasPrefix(line, "Model checking completed. No error has been found.") {
			res.OK = true
			continue
		}
		if strings.HasPrefix(line, "Error:") {
			inErr = true
			res.Errors = append(res.Errors, line)
			continue
		}
		if inErr && len(res.Errors) < 200 {
			res.Errors = append(res.Errors, line)
			continue
		}
		if pending == "" && isChatter(line) {
			continue
		}
		// TLC pretty-prints long values over several lines: join until brackets balance
		if pending != "" {
			line = pending + " " + strings.TrimSpace(line)
			pending = ""
		}
		if !balanced(line) {
			pending = line
			continue
		}
		if strings.HasPrefix(line, "<< ") {
			line = "<<" + strings.TrimLeft(line[2:], " ")
		}
		res.Lines = append(res.Lines, line)
		if o.OnLine != nil {
			o.OnLine(line)
		}
	}
	werr := cmd.Wait()
	killed := !timer.Stop()
	res.Wall = time.Since(t0)
	res.Output = out.String()
	if killed {
		return res, fmt.Errorf("tlc %s: timeout after %s", o.Module, o.Timeout)
	}
	if o.Simulate != "" && werr == nil && len(res.Errors) == 0 {
		res.OK = true
	}
	if werr != nil && len(res.Errors) == 0 && !res.OK {
		return res, fmt.Errorf("tlc %s: %v\n%s\n%s", o.Module, werr, tail(res.Output, 40), stderr.String())
	}
	for _, e := range res.Errors {
		// parse / semantic / evaluation errors are infrastructure, not property results
		if strings.Contains(e, "Parsing or semantic analysis failed") || strings.Contains(e, "TLC threw an unexpected exception") ||
			strings.Contains(e, "java.lang.") || strings.Contains(e, "was not found") {
			return res, fmt.Errorf("tlc %s: %s\n%s", o.Module, e, tail(res.Output, 60))
		}
	}
	c.mu.Lock()
	c.States += res.Distinct
	c.Transitions += res.Generated
	c.mu.Unlock()
	return res, nil
}

// MustTLC runs TLC and treats anything but a clean pass as an infrastructure problem: a
// specification-level counterexample is a work item for the author of the specification, never
// a verdict about the code (DESIGN.md §4.4).
func (c *Ctx) MustTLC(o TLCOpts) *TLCResult {
	r, err := c.TLC(o)
	if err != nil {
		Infra("%v", err)
	}
	if !r.OK {
		Infra("tlc %s did not pass:\n%s\n%s", o.Module, strings.Join(r.Errors, "\n"), tail(r.Output, 40))
	}
	return r
}

// Apalache runs `apalache-mc check` on a module of /verif/spec in a private directory. It returns "ok" (no error up
// to the given length), "violation" (a counterexample exists) or an error for anything else.
func (c *Ctx) Apalache(module string, args ...string) (string, error) {
	dir, err := os.MkdirTemp(c.Work, "apalache-")
	if err != nil {
		return "", err
	}
	defer os.RemoveAll(dir)
	b, err := os.ReadFile(filepath.Join(c.Root, "spec", module+".tla"))
	if err != nil {
		return "", err
	}
	if err := os.WriteFile(filepath.Join(dir, module+".tla"), b, 0o644); err != nil {
		return "", err
	}
	cmd := exec.Command("timeout", append([]string{"900", "apalache-mc", "check"}, append(args, module+".tla")...)...)
	cmd.Dir = dir
	out, _ := cmd.CombinedOutput()
	s := string(out)
	switch {
	case strings.Contains(s, "The outcome is: NoError"):
		return "ok", nil
	case strings.Contains(s, "The outcome is: Error"):
		return "violation", nil
	}
	return "", fmt.Errorf("apalache %s %v: %s", module, args, tail(s, 15))
}

// balanced reports whether every << [ { ( opened in s (outside string literals) is closed.
func balanced(s string) bool {
	depth := 0
	inStr := false
	for i := 0; i < len(s); i++ {
		ch := s[i]
		if inStr {
			if ch == '\\' {
				i++
			} else if ch == '"' {
				inStr = false
			}
			continue
		}
		switch {
		case ch == '"':
			inStr = true
		case ch == '<' && i+1 < len(s) && s[i+1] == '<':
			depth++
			i++
		case ch == '>' && i+1 < len(s) && s[i+1] == '>':
			depth--
			i++
		case ch == '[' || ch == '{' || ch == '(':
			depth++
		case ch == ']' || ch == '}' || ch == ')':
			depth--
		}
	}
	return depth <= 0
}

func tail(s string, n int) string {
	l := strings.Split(s, "\n")
	if len(l) > n {
		l = l[len(l)-n:]
	}
	return strings.Join(l, "\n")
}

var chatter = []string{"TLC2 Version", "Running breadth-first", "Running Random", "Running depth-first", "Parsing file", "Semantic processing",
	"Starting...", "Implied-temporal", "Computing initial", "Finished computing", "Computed ", "Progress(", "Finished in", "Checking temporal",
	"Finished checking", "The depth of", "Warning:", "Linting of", "Semantic processing of", "The number of states generated", "Progress:",
	"@!@!@", "  based on", "  calculated", "  should be", "Mode: ", "Please run", "(Use the -nowarning", "The average outdegree", "Temporal properties",
	"Checkpointing", "The seed is", "The aril is", "The coverage", "End of statistics", "Picked up JAVA_TOOL_OPTIONS", "CommunityModules"}

func isChatter(l string) bool {
	if l == "" {
		return true
	}
	for _, p := range chatter {
		if strings.HasPrefix(l, p) {
			return true
		}
	}
	return false
}

// ---------------------------------------------------------------------------------------------
// helpers

// ParallelFor runs f(i) for i in [0,n) on all cores.
func ParallelFor(n int, f func(i int)) {
	w := runtime.NumCPU()
	if w > n {
		w = n
	}
	if w < 1 {
		w = 1
	}
	var wg sync.WaitGroup
	ch := make(chan int, 256)
	for k := 0; k < w; k++ {
		wg.Add(1)
		go func() {
			defer wg.Done()
			for i := range ch {
				f(i)
			}
		}()
	}
	for i := 0; i < n; i++ {
		ch <- i
	}
	close(ch)
	wg.Wait()
}

func SortedKeys[V any](m map[string]V) []string {
	ks := make([]string, 0, len(m))
	for k := range m {
		ks = append(ks, k)
	}
	sort.Strings(ks)
	return ks
}

func Hex(b []byte) string { return fmt.Sprintf("%x", b) }

// ---------------------------------------------------------------------------------------------
// trace validation

// TraceResult of validating an NDJSON trace against a Trace_*.tla module. All Trace modules
// follow one convention: variable l walks the lines; a line the specification does not allow
// prints <<"REJECT", l, ...>> (and the walk resumes at the next independent trace); reaching
// the end prints <<"DONE", n>>.
type TraceResult struct {
	Lines    int
	Rejected [][]any // parsed REJECT tuples (first element after the tag is the 1-based line)
	Tagged   map[string][][]any // every other printed tuple <<"TAG", ...>> by tag
	TLC      *TLCResult
}

func (c *Ctx) ValidateTrace(module string, lines [][]byte, extra TLCOpts) *TraceResult {
	if len(lines) == 0 {
		Infra("ValidateTrace(%s): empty trace", module)
	}
	var buf bytes.Buffer
	for _, l := range lines {
		buf.Write(l)
		buf.WriteByte('\n')
	}
	o := extra
	o.Module = module
	if o.Files == nil {
		o.Files = map[string][]byte{}
	}
	o.Files["trace.ndjson"] = buf.Bytes()
	o.Workers = 1
	tr := &TraceResult{Lines: len(lines), Tagged: map[string][][]any{}}
	done := -1
	o.OnLine = func(line string) {
		if !strings.HasPrefix(line, "<<\"") {
			return
		}
		v, err := ParseTLA(line)
		if err != nil {
			return
		}
		t, ok := v.([]any)
		if !ok || len(t) < 2 {
			return
		}
		switch Str(t[0]) {
		case "REJECT":
			tr.Rejected = append(tr.Rejected, t[1:])
		case "DONE":
			done = t[1].(int)
		default:
			tr.Tagged[Str(t[0])] = append(tr.Tagged[Str(t[0])], t[1:])
		}
	}
	r, err := c.TLC(o)
	if err != nil {
		Infra("trace validation %s: %v", module, err)
	}
	tr.TLC = r
	if !r.OK {
		Infra("trace validation %s: TLC reported errors:\n%s", module, strings.Join(r.Errors, "\n"))
	}
	if done != len(lines) {
		Infra("trace validation %s: walked %d of %d lines\n%s", module, done, len(lines), tail(r.Output, 30))
	}
	return tr
}

func JSONLine(v any) []byte {
	b, err := json.Marshal(v)
	if err != nil {
		panic(err)
	}
	return b
}

// ---- wall-clock verdicts ---------------------------------------------------------------------------------------------
// A verdict that rests on elapsed time ("took longer than", "did not return within") is confirmed before it is reported:
// the measurement is repeated once while no other confirmation runs, and time limits are stretched by the machine's load
// (runnable tasks per core) - a busy machine must not turn into an alarm.
var calmMu sync.Mutex

// Calm runs f while holding the confirmation lock.
func Calm(f func()) {
	calmMu.Lock()
	defer calmMu.Unlock()
	time.Sleep(500 * time.Millisecond)
	f()
}

// LoadFactor is max(1, 1-minute load average / number of CPUs).
func LoadFactor() float64 {
	b, err := os.ReadFile("/proc/loadavg")
	if err != nil {
		return 1
	}
	var l1 float64
	if _, err := fmt.Sscan(string(b), &l1); err != nil {
		return 1
	}
	f := l1 / float64(runtime.NumCPU())
	if f < 1 {
		return 1
	}
	return f
}

// Stretch scales a time limit by the load factor.
func Stretch(d time.Duration) time.Duration { return time.Duration(float64(d) * LoadFactor()) }
