module verif/harness

go 1.26.0

require github.com/gmrtd/gmrtd v0.0.0

require github.com/aead/cmac v0.0.0-20160719120800-7af84192f0b1 // indirect

replace github.com/gmrtd/gmrtd => /repo
