// Package link is the wire between gmrtd's NfcSession and the chip simulator. It implements
// iso7816.Transceiver, records every exchange, and executes adversary / fault scripts (the moves
// of SM.tla and Session.tla, DESIGN.md Appendix B). Because it sits on the public Transceiver
// interface it is also the observation point "bytes handed to Transceiver.Transceive".
package link

import (
	"sync"
)

// Processor is the chip side: wire bytes in, wire bytes out.
type Processor interface {
	Process(cmd []byte) []byte
}

// Exchange is one recorded exchange.
type Exchange struct {
	Idx      int
	Cla, Ins int
	P1, P2   int
	Nc, Le   int    // structured arguments the terminal passed next to the encoded bytes
	Cmd      []byte // bytes on the wire (terminal -> chip)
	Withheld bool   // the command never reached the chip
	ChipResp []byte // what the chip answered (nil if withheld)
	Resp     []byte // what the terminal received
	Move     string // adversary / fault move applied ("pass" if none)
}

// Action is what the script decides for one exchange.
type Action struct {
	Name     string
	Withhold bool                                // do not forward the command
	AlterCmd func(cmd []byte) []byte             // forward an altered command
	Respond  func(genuine []byte, l *Link) []byte // transform the chip's answer (genuine is nil when withheld)
}

var Pass = Action{Name: "pass"}

type Link struct {
	mu     sync.Mutex
	Chip   Processor
	Script func(idx int, cmd []byte, l *Link) Action // nil = honest link
	Log    []Exchange
	// Gate, when non-nil, is called (outside the lock) before the command is forwarded; a blocking
	// gate holds the calling goroutine inside its critical section (C20).
	Gate func(idx int, cmd []byte)
}

func New(chip Processor) *Link { return &Link{Chip: chip} }

func (l *Link) Transceive(cla, ins, p1, p2 int, data []byte, le int, encoded []byte) []byte {
	l.mu.Lock()
	idx := len(l.Log)
	ex := Exchange{Idx: idx, Cla: cla, Ins: ins, P1: p1, P2: p2, Nc: len(data), Le: le, Cmd: append([]byte{}, encoded...), Move: "pass"}
	l.Log = append(l.Log, ex)
	script := l.Script
	gate := l.Gate
	l.mu.Unlock()

	if gate != nil {
		gate(idx, encoded)
	}
	act := Pass
	if script != nil {
		act = script(idx, encoded, l)
	}
	cmd := ex.Cmd
	if act.AlterCmd != nil {
		cmd = act.AlterCmd(append([]byte{}, cmd...))
	}
	var chipResp []byte
	if !act.Withhold {
		chipResp = l.Chip.Process(cmd)
	}
	resp := chipResp
	if act.Respond != nil {
		var g []byte
		if chipResp != nil {
			g = append([]byte{}, chipResp...)
		}
		resp = act.Respond(g, l)
	}
	l.mu.Lock()
	e := &l.Log[idx]
	e.Withheld = act.Withhold
	e.ChipResp = chipResp
	e.Resp = append([]byte{}, resp...)
	if act.Name != "" {
		e.Move = act.Name
	}
	l.mu.Unlock()
	return resp
}

// Exchanges returns a copy of the log.
func (l *Link) Exchanges() []Exchange {
	l.mu.Lock()
	defer l.mu.Unlock()
	return append([]Exchange{}, l.Log...)
}
