// Package lds is an independent second reading of the LDS1 file formats of ICAO Doc 9303-10
// (and of the biometric records of ISO/IEC 19794-5:2005 and ISO/IEC 39794-5 they carry),
// used to check property C19 of github.com/gmrtd/gmrtd: the parsed view a caller is shown
// equals what the raw bytes encode.
//
// The non-test files use the standard library only and do not import or copy the library
// under test. gmrtd's source was read only to learn which fields its view exposes. The test
// files import gmrtd, project its structs to the same normalised View and compare; where
// gmrtd deviates from the standard the deviation is listed in knownDiscrepancies
// (gmrtd_test.go) with an explanation, logged with a reproduction on every run, and NOT
// reproduced by this package.
//
// # API
//
//	Encode(spec FileSpec, opts EncodeOpts) ([]byte, error)   spec -> well-formed file bytes
//	ExpectedView(spec FileSpec) (View, error)                spec -> view        (route 1)
//	Decode(kind string, raw []byte) (View, error)            bytes -> view       (route 2, the reference decoding)
//	Enumerate(kind string, depth int) []FileSpec             systematic optional/repetition space
//	EnumerateOpts(kind string) []EncodeOpts                  encoding variants worth crossing with Enumerate
//	RandomSpec(kind string, rnd *rand.Rand) FileSpec         random well-formed content
//	RandomOpts(rnd *rand.Rand) EncodeOpts
//	WrongTagPairs() []WrongTagPair                           file of kind K presented as DG N != K: must be rejected
//	ForeignPrefixPairs() []PrefixedFile                      template of kind A followed by template of kind B, presented as B: must be rejected
//	ExpectedSummary(files map[string]View) View              identity summary from the per-file views
//	Diff(want, got View) []string / Equal / Normalize        comparison after JSON normalisation
//	DecodeSecurityInfos, EncodeSecurityInfos                 SET OF SecurityInfo
//	DecodeLDSSecurityObject, EncodeLDSSecurityObject         eContent of EF.SOD
//	ExtractEContent(signedDataDER)                           (eContentType, eContent) of a definite-length CMS SignedData
//	WrapUnsignedSignedData(type, eContent, digestOID)        structure-only SignedData (no signer) for view checks
//	BuildMRZ(MRZFields) / DecodeMRZ(string)                  TD1 / TD2 / TD3 with all check digits
//	KindTag, KindDG, DGTag, Kinds
//
// Decode validates well-formedness (outer tag, no trailing octets, counts equal to the
// number of repeated objects, tag list 5C equal to the set of stored objects, check digits,
// record lengths) and returns an error otherwise; in particular Decode(kind, raw) fails when
// the outer tag of raw is not the one of kind.
//
// # FileSpec vocabulary
//
// FileSpec{Kind, <one member per kind>, Raw}; JSON names in brackets. Absent optional
// members (nil pointer / nil slice) mean the data object is absent from the file.
//
//	DG1   [dg1]  {mrz: literal 88/72/90 characters} or {fields: MRZFields{format TD1|TD2|TD3, documentCode, issuingState,
//	             primary, secondary, documentNumber (more than 9 characters: continued in the optional data, TD1/TD2),
//	             nationality, dateOfBirth YYMMDD, sex M|F|"" , dateOfExpiry, optionalData, optionalData2 (TD1),
//	             emptyOptionalCheckDigitZero (TD3)}}
//	DG2   [dg2]  {templates: 1..9 x {header {icaoHeaderVersion 80, biometricType 81, biometricSubType 82, creationDateTime 83,
//	             validityPeriod 85, pid 86, formatOwner 87, formatType 88: hex, each optional},
//	             iso19794 {faces: 1..n x {gender, eyeColour, hairColour, featureMask, expression, pose[3], poseUncertainty[3],
//	                       featurePoints 0..n x {type, majorPoint, minorPoint, x, y}, faceImageType, imageDataType, width, height,
//	                       colourSpace, sourceType, deviceType, quality, image}}            -> 5F2E
//	           | iso39794 {generation, year, representations 1..n x {representationId, image, imageDataFormat (code),
//	                       faceImageKind2D?, imageSize [w,h]?, imageColourSpace?, captureDateTime {year, month?, day?, hour?,
//	                       minute?, second?, millisecond?}?, sessionId?, derivedFrom?}}     -> 7F2E A1 65}}
//	DG7   [dg7]  {images: 1..9 x image}
//	DG11  [dg11] {nameOfHolder {primary, secondary}?, otherNames [names] (A0 {02 n, 5F0F x n}, listed as 5F0F), personalNumber?,
//	             fullDateOfBirth "YYYYMMDD"?, placeOfBirth [components]?, address [components]?, telephone?, profession?, title?,
//	             personalSummary?, proofOfCitizenship image?, otherValidTDNumbers [components]?, custodyInformation?}
//	DG12  [dg12] {issuingAuthority?, dateOfIssue "YYYYMMDD"?, otherPersons [names] (A0 {02 n, 5F1A x n}), endorsementsAndObservations?,
//	             taxExitRequirements?, imageFront image?, imageRear image?, dateTimeOfPersonalization "YYYYMMDDhhmmss"?,
//	             personalizationSystemSerialNumber?}
//	DG13  [dg13] {content: hex}                        arbitrary octets under 6D
//	DG14  [securityInfos] {infos: [SecInfoSpec]}       6E { SET OF SecurityInfo }
//	CardAccess   [securityInfos]                       SET OF SecurityInfo
//	CardSecurity [securityInfos] or raw                SignedData(id-SecurityObject, SET OF SecurityInfo)
//	             SecInfoSpec{type pace|paceDomain|chipAuth|chipAuthPublicKey|activeAuth|terminalAuth|efDir|unknown, protocol OID,
//	             version, parameterId?, keyId?, signatureAlgorithm, domainParameter {algorithm, parameters hex}?,
//	             chipAuthenticationPublicKey {algorithm {..}, subjectPublicKey hex, unusedBits}?, efCVCA {fid, sfid?}?, efDir hex, body hex}
//	DG15  [dg15] {alg rsa|ec|ec-explicit|dh, bits, seed} (synthetic SubjectPublicKeyInfo) or {spki: hex}
//	DG16  [dg16] {persons: 1..15 x {dateRecorded "YYYYMMDD", name, telephone, address [components]}}   templates A1..AF
//	COM   [com]  {ldsVersion (4), unicodeVersion (6), tags [data group tags]}
//	SOD   [sod]  {eContentType?, version 0|1, hashAlgorithm {algorithm, parameters?}, dataGroupHashValues [{dataGroupNumber,
//	             dataGroupHashValue hex}], ldsVersion?, unicodeVersion?} or raw
//	image        {format jpeg|jp2|j2k, size, fill} (synthetic, recognisable header + filler) or {data: hex}
//
// For SOD and CardSecurity Encode produces a structurally valid but unsigned SignedData;
// really signed objects are built by package pki and passed through FileSpec.Raw (Encode
// returns Raw unchanged; Decode works on any definite-length DER SignedData).
//
// EncodeOpts{bcdDates, lengthForm 0|1|2, permute seed, tagListOnly}: BCD instead of character
// dates (5F2B, 5F26, 5F55, 5F50); long-form lengths 81 xx / 82 xx xx for the LDS template
// objects (never inside DER values); permuted order of tag list and stored objects (DG11,
// DG12), of the SecurityInfos SET and of the EF.COM tag list.
//
// # View field names
//
// Byte strings are lower-case hex, numbers are JSON numbers, absent data objects have no key.
//
//	DG1   mrz, format, documentCode, issuingState, name{primary, secondary?}, documentNumber, nationality, dateOfBirth, sex
//	      ("" = unspecified), dateOfExpiry, optionalData, optionalData2 (TD1 only). Fillers: trailing removed, inner read as spaces.
//	DG2   images [hex] (every image of every template, file order), templates [{header{icaoHeaderVersion.. as in the spec},
//	      encoding "iso19794"|"iso39794",
//	      iso19794{formatId, versionId, recordLength, numberOfFaces, faces[{blockLength, numberOfFeaturePoints, gender, eyeColour,
//	        hairColour, featureMask, expression, pose, poseUncertainty (hex), featurePoints[{type, majorPoint, minorPoint, x, y}],
//	        faceImageType, imageDataType, width, height, colourSpace, sourceType, deviceType, quality, image}]},
//	      iso39794{generation, year, representations[{representationId, image, imageDataFormat / faceImageKind2D? /
//	        imageColourSpace? (hex of the complete tagged element), imageSize{width,height}, captureDateTime{year..millisecond},
//	        sessionId, derivedFrom}]}}]. Absent optional integers of the 39794 block read 0 (gmrtd's structs cannot tell them apart).
//	DG7   images [hex]
//	DG11  nameOfHolder, otherNames [names], personalNumber, fullDateOfBirth (YYYYMMDD whatever the encoding), placeOfBirth [..],
//	      address [..], telephone, profession, title, personalSummary, proofOfCitizenship hex, otherValidTDNumbers [..], custodyInformation
//	DG12  issuingAuthority, dateOfIssue, otherPersons [names], endorsementsAndObservations, taxExitRequirements, imageFront, imageRear,
//	      dateTimeOfPersonalization (YYYYMMDDhhmmss), personalizationSystemSerialNumber
//	DG13  content        DG15  subjectPublicKeyInfo
//	DG14 / CardAccess  securityInfos{paceInfos[{protocol, version, parameterId?}], paceDomainParameterInfos[{protocol,
//	      domainParameter{algorithm, parameters?}, parameterId?}], chipAuthenticationInfos[{protocol, version, keyId?}],
//	      chipAuthenticationPublicKeyInfos[{protocol, chipAuthenticationPublicKey{algorithm{..}, subjectPublicKey, unusedBits}, keyId?}],
//	      activeAuthenticationInfos[{protocol, version, signatureAlgorithm}], terminalAuthenticationInfos[{protocol, version,
//	      efCVCA{fid, sfid?}?}], efDirInfos[{protocol, efDir}], unknownInfos[{protocol, raw}]}; each list sorted (a SET has no order)
//	CardSecurity  eContentType + securityInfos as above
//	DG16  personsToNotify[{dateRecorded, name, telephone, address[..]}]
//	COM   ldsVersion, unicodeVersion, tagList [numbers, ascending]
//	SOD   eContentType, ldsSecurityObject{version, hashAlgorithm{algorithm, parameters?}, dataGroupHashValues[{dataGroupNumber,
//	      dataGroupHashValue}], ldsVersionInfo{ldsVersion, unicodeVersion}?}
//	summary (ExpectedSummary)  documentCode, issuingState, documentNumber, nationality, sex, name (DG11 over MRZ), nameMrzRaw,
//	      otherNames, dateOfBirth (DG11 over MRZ), dateOfBirthMrzRaw, dateOfBirthDg11Raw, dateOfExpiryMrzRaw, placeOfBirth, address,
//	      telephone, profession, title, personalNumber, mrzOptionalData, mrzOptionalData2, issuingAuthority, dateOfIssue, faceImages,
//	      signatureImages, documentImageFront, documentImageRear, personsToNotify, ldsVersion / unicodeVersion (EF.SOD over EF.COM)
//
// # Readings of the standard that matter
//
//   - Names (MRZ, 5F0E, 5F0F, 5F1A, 5F51): PRIMARY<<SECONDARY, components separated by one filler.
//   - '<'-separated lists (5F11, 5F42, 5F17, 5F53): split at every '<'; an empty component stays an (empty) component.
//   - Free text (5F12..5F15, 5F18, 5F19, 5F1B, 5F1C, 5F52, 5F56): the octets as they are. The generators never put '<' or
//     trailing blanks into free text, so implementations that apply MRZ filler rules there are not flagged.
//   - ISO/IEC 19794-5 feature point: type(1) code(1: major<<4|minor) x(2) y(2) reserved(2).
//   - ISO/IEC 39794-5: AUTOMATIC TAGS, choice-typed components explicitly wrapped; the block sits in the [1] (face)
//     alternative under 7F2E.
//   - SecurityInfo type is selected by the protocol OID: id-PACE-x (10 arcs) PACEDomainParameterInfo, id-PACE-x-y PACEInfo,
//     id-CA-x-y ChipAuthenticationInfo, id-PK-x ChipAuthenticationPublicKeyInfo, id-TA TerminalAuthenticationInfo
//     (with efCVCA FileID OPTIONAL), 2.23.136.1.1.5 ActiveAuthenticationInfo, 2.23.136.1.1.13 EFDIRInfo, else unknown.
package lds
