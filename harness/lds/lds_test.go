package lds

import (
	"encoding/json"
	"fmt"
	"math/rand"
	"testing"
)

// The two routes to the expected view (from the spec, from the bytes) must agree for every
// enumerated and random file under every encoding variant.
func TestTwoRoutesAgree(t *testing.T) {
	for _, kind := range Kinds {
		specs := Enumerate(kind, 3)
		r := rand.New(rand.NewSource(19))
		for i := 0; i < 300; i++ {
			specs = append(specs, RandomSpec(kind, r))
		}
		n := 0
		for i, s := range specs {
			optsList := EnumerateOpts(kind)
			if i >= len(specs)-300 {
				optsList = []EncodeOpts{RandomOpts(r)}
			}
			want, err := ExpectedView(s)
			if err != nil {
				t.Fatalf("%s #%d ExpectedView: %v", kind, i, err)
			}
			for _, o := range optsList {
				raw, err := Encode(s, o)
				if err != nil {
					js, _ := json.Marshal(s)
					t.Fatalf("%s #%d Encode: %v\n%s", kind, i, err, js)
				}
				got, err := Decode(kind, raw)
				if err != nil {
					js, _ := json.Marshal(s)
					t.Fatalf("%s #%d Decode: %v\nspec %s\nraw %x", kind, i, err, js, raw)
				}
				if d := Diff(want, got); len(d) > 0 {
					js, _ := json.Marshal(s)
					t.Fatalf("%s #%d opts %+v: routes disagree: %v\nspec %s\nraw %x", kind, i, o, d, js, raw)
				}
				n++
			}
		}
		t.Logf("%-12s %d specs, %d encodings", kind, len(specs), n)
	}
}

// A FileSpec survives JSON.
func TestSpecJSONRoundTrip(t *testing.T) {
	r := rand.New(rand.NewSource(7))
	for _, kind := range Kinds {
		for i := 0; i < 50; i++ {
			s := RandomSpec(kind, r)
			js, err := json.Marshal(s)
			if err != nil {
				t.Fatal(err)
			}
			var back FileSpec
			if err := json.Unmarshal(js, &back); err != nil {
				t.Fatalf("%s: %v\n%s", kind, err, js)
			}
			a, err := Encode(s, EncodeOpts{})
			if err != nil {
				t.Fatal(err)
			}
			b, err := Encode(back, EncodeOpts{})
			if err != nil {
				t.Fatal(err)
			}
			if string(a) != string(b) {
				t.Fatalf("%s: spec changed by JSON round trip\n%s", kind, js)
			}
		}
	}
}

// The reference decoding itself rejects a file presented under another kind.
func TestReferenceRejectsWrongKind(t *testing.T) {
	for _, p := range WrongTagPairs() {
		as := fmt.Sprintf("DG%d", p.AsDG)
		switch p.AsDG {
		case 1, 2, 7, 11, 12, 13, 14, 15, 16:
			if _, err := Decode(as, p.Raw); err == nil {
				t.Errorf("%s accepted as %s", p.Kind, as)
			}
		}
	}
	for _, a := range Kinds {
		raw, err := Encode(Enumerate(a, 1)[0], EncodeOpts{})
		if err != nil {
			t.Fatal(err)
		}
		for _, b := range Kinds {
			ta, _ := KindTag(a)
			tb, _ := KindTag(b)
			if ta == tb {
				continue
			}
			if _, err := Decode(b, raw); err == nil {
				t.Errorf("%s accepted as %s", a, b)
			}
		}
	}
}

func TestICAOSampleMRZ(t *testing.T) {
	// Doc 9303-4 Appendix B specimen
	m := "P<UTOERIKSSON<<ANNA<MARIA<<<<<<<<<<<<<<<<<<<" + "L898902C36UTO7408122F1204159ZE184226B<<<<<10"
	v, err := DecodeMRZ(m)
	if err != nil {
		t.Fatal(err)
	}
	want := View{"format": "TD3", "documentCode": "P", "issuingState": "UTO", "name": View{"primary": "ERIKSSON", "secondary": "ANNA MARIA"},
		"documentNumber": "L898902C3", "nationality": "UTO", "dateOfBirth": "740812", "sex": "F", "dateOfExpiry": "120415", "optionalData": "ZE184226B"}
	if d := Diff(want, v); len(d) > 0 {
		t.Fatal(d)
	}
	built, err := BuildMRZ(MRZFields{Format: "TD3", DocumentCode: "P", IssuingState: "UTO", Primary: "ERIKSSON", Secondary: "ANNA MARIA",
		DocumentNumber: "L898902C3", Nationality: "UTO", DateOfBirth: "740812", Sex: "F", DateOfExpiry: "120415", OptionalData: "ZE184226B"})
	if err != nil || built != m {
		t.Fatalf("BuildMRZ: %v\n%s\n%s", err, built, m)
	}
	// Doc 9303-5 Appendix B: long document number in TD1
	td1 := "I<UTOD23145890<7349<<<<<<<<<<<" + "3407127M9507122UTO<<<<<<<<<<<2" + "STEVENSON<<PETER<JOHN<<<<<<<<<"
	v, err = DecodeMRZ(td1)
	if err != nil {
		t.Fatal(err)
	}
	if v["documentNumber"] != "D23145890734" || v["optionalData"] != "" {
		t.Fatalf("long document number: %v", v)
	}
}
