package lds

import (
	"fmt"
	"math/rand"
)

// Shapes are the abstract file descriptions enumerated by spec/LdsView.tla (which optional
// objects are present, how often the repeated elements occur, which encoding choices are
// made). The functions below concretise a shape into a FileSpec by drawing a fresh value for
// every value id; the content of every repeated element is made distinguishable (different
// names / images) so that a dropped, duplicated or re-ordered element shows in the view.

// TemplateShape is one biometric information template of a DG2 shape.
type TemplateShape struct {
	Enc string // "iso19794" | "iso39794"
	N   int    // number of images (faces / representations)
}

// ShapeOpts translates the encoding record of LdsView.tla.
func ShapeOpts(order string, bcd bool, lengthForm int, seed int64) EncodeOpts {
	o := EncodeOpts{BCDDates: bcd, LengthForm: lengthForm}
	switch order {
	case "permuted":
		o.Permute = 1 + seed%1000
	case "taglist-permuted":
		o.Permute = 1 + seed%1000
		o.TagListOnly = true
	}
	return o
}

func distinctNames(r *rand.Rand, n int) []NameSpec {
	out := make([]NameSpec, 0, n)
	for i := 0; i < n; i++ {
		nm := rname(r, true)
		nm.Primary = fmt.Sprintf("%s %c", nm.Primary, 'A'+i) // i-th element is recognisable
		out = append(out, nm)
	}
	return out
}

// nonEmptyList is a '<'-separated list without empty components (those are a grey zone, see DESIGN.md C19).
func nonEmptyList(r *rand.Rand, max int) []string { return rlist(r, max, false) }

// ShapeTagged builds a DG11 / DG12 with exactly the named optional objects and n repeated names.
func ShapeTagged(kind string, present []string, n int, r *rand.Rand) (FileSpec, error) {
	has := map[string]bool{}
	for _, p := range present {
		has[p] = true
	}
	s := FileSpec{Kind: kind}
	switch kind {
	case "DG11":
		d := &DG11Spec{}
		for p := range has {
			switch p {
			case "nameOfHolder":
				nm := rname(r, true)
				d.NameOfHolder = &nm
			case "personalNumber":
				d.PersonalNumber = sp(rword(r, alphaNum, 4, 14))
			case "fullDateOfBirth":
				d.FullDateOfBirth = sp(rdate(r))
			case "placeOfBirth":
				d.PlaceOfBirth = nonEmptyList(r, 3)
			case "address":
				d.Address = nonEmptyList(r, 4)
			case "telephone":
				d.Telephone = sp(rtel(r))
			case "profession":
				d.Profession = sp(rwords(r, true, 1, 3))
			case "title":
				d.Title = sp(rwords(r, true, 1, 2))
			case "personalSummary":
				d.PersonalSummary = sp(rwords(r, true, 2, 6))
			case "proofOfCitizenship":
				im := rimage(r)
				d.ProofOfCitizenship = &im
			case "otherValidTDNumbers":
				for i, k := 0, 1+r.Intn(3); i < k; i++ {
					d.OtherValidTDNumbers = append(d.OtherValidTDNumbers, rword(r, alphaNum, 6, 9))
				}
			case "custodyInformation":
				d.CustodyInformation = sp(rwords(r, true, 1, 4))
			default:
				return s, fmt.Errorf("lds: unknown DG11 object %q", p)
			}
		}
		d.OtherNames = distinctNames(r, n)
		s.DG11 = d
	case "DG12":
		d := &DG12Spec{}
		for p := range has {
			switch p {
			case "issuingAuthority":
				d.IssuingAuthority = sp(rwords(r, true, 1, 4))
			case "dateOfIssue":
				d.DateOfIssue = sp(rdate(r))
			case "endorsementsAndObservations":
				d.EndorsementsAndObservations = sp(rwords(r, true, 1, 6))
			case "taxExitRequirements":
				d.TaxExitRequirements = sp(rwords(r, true, 1, 4))
			case "imageFront":
				im := rimage(r)
				d.ImageFront = &im
			case "imageRear":
				im := rimage(r)
				d.ImageRear = &im
			case "dateTimeOfPersonalization":
				d.DateTimeOfPersonalization = sp(rdatetime(r))
			case "personalizationSystemSerialNumber":
				d.PersonalizationSystemSerial = sp(rword(r, alphaNum, 4, 16))
			default:
				return s, fmt.Errorf("lds: unknown DG12 object %q", p)
			}
		}
		d.OtherPersons = distinctNames(r, n)
		s.DG12 = d
	default:
		return s, fmt.Errorf("lds: ShapeTagged(%s)", kind)
	}
	return s, nil
}

// ShapeDG2 builds a DG2 with the given templates; every image is different (Fill, Size).
func ShapeDG2(tpls []TemplateShape, r *rand.Rand) (FileSpec, error) {
	d := &DG2Spec{}
	k := 0
	img := func() ImageSpec {
		k++
		im := rimage(r)
		im.Fill = k // recognisable: the k-th image of the file
		im.Size = 40 + 3*k
		return im
	}
	for ti, t := range tpls {
		switch t.Enc {
		case "iso19794":
			rec := &FaceRecordSpec{}
			for i := 0; i < t.N; i++ {
				f := rFace(r)
				f.Image = img()
				f.ImageDataType = 0
				if f.Image.Format != "jpeg" {
					f.ImageDataType = 1
				}
				rec.Faces = append(rec.Faces, f)
			}
			d.Templates = append(d.Templates, BITSpec{Header: rHeader(r, HexBytes{0x00, 0x08}), ISO19794: rec})
		case "iso39794":
			blk := &Face39794Spec{Generation: 3, Year: 2019}
			for i := 0; i < t.N; i++ {
				rep := rRep39794(r, 10*(ti+1)+i+1)
				rep.Image = img()
				rep.ImageDataFormat = 2
				if rep.Image.Format != "jpeg" {
					rep.ImageDataFormat = 3
				}
				blk.Representations = append(blk.Representations, rep)
			}
			d.Templates = append(d.Templates, BITSpec{Header: rHeader(r, HexBytes{0x00, 0x1B}), ISO39794: blk})
		default:
			return FileSpec{}, fmt.Errorf("lds: template encoding %q", t.Enc)
		}
	}
	return FileSpec{Kind: "DG2", DG2: d}, nil
}

// ShapeRepeated builds a DG7 (n images) or DG16 (n persons).
func ShapeRepeated(kind string, n int, r *rand.Rand) (FileSpec, error) {
	switch kind {
	case "DG7":
		d := &DG7Spec{}
		for i := 0; i < n; i++ {
			im := rimage(r)
			im.Fill, im.Size = i+1, 40+5*i
			d.Images = append(d.Images, im)
		}
		return FileSpec{Kind: kind, DG7: d}, nil
	case "DG16":
		d := &DG16Spec{}
		for i, nm := range distinctNames(r, n) {
			_ = i
			d.Persons = append(d.Persons, PersonSpec{DateRecorded: rdate(r), Name: nm, Telephone: rtel(r), Address: nonEmptyList(r, 4)})
		}
		return FileSpec{Kind: kind, DG16: d}, nil
	}
	return FileSpec{}, fmt.Errorf("lds: ShapeRepeated(%s)", kind)
}

// ShapeSecInfos builds a SecurityInfos file with counts[type] infos of each type; ids says
// whether the optional parameterId / keyId members are present. Infos of one type get
// different protocol OIDs or ids so that none can stand in for another.
func ShapeSecInfos(kind string, counts map[string]int, ids bool, r *rand.Rand) (FileSpec, error) {
	d := &SecInfosSpec{}
	for _, typ := range secInfoTypes {
		for i := 0; i < counts[typ]; i++ {
			x := rSecInfo(r, typ)
			switch typ {
			case "pace", "paceDomain":
				x.ParameterID = nil
				if ids {
					x.ParameterID = i64p(int64(8 + i))
				}
			case "chipAuth", "chipAuthPublicKey":
				x.KeyID = nil
				if ids {
					x.KeyID = i64p(int64(1 + i))
				}
			case "terminalAuth":
				x.EFCVCA = nil // not exposed by the library's view (DESIGN.md C19)
			case "unknown":
				x.OID = fmt.Sprintf("1.3.6.1.4.1.99999.%d", 1+i)
			}
			d.Infos = append(d.Infos, x)
		}
	}
	return FileSpec{Kind: kind, SecurityInfos: d}, nil
}

// ShapeSOD builds an (unsigned) EF.SOD with an LDSSecurityObject of the given version and number of hashes.
func ShapeSOD(version, nHashes int, ascending bool, r *rand.Rand) (FileSpec, error) {
	h := hashAlgs[r.Intn(len(hashAlgs))]
	d := &SODSpec{Version: version, HashAlgorithm: AlgIDSpec{OID: h.oid}}
	dgs := append([]int{1, 2}, optionalDGs...)
	for i := 0; i < nHashes && i < len(dgs); i++ {
		d.Hashes = append(d.Hashes, DGHashSpec{dgs[i], rbytes(r, h.n)})
	}
	if !ascending && len(d.Hashes) > 1 {
		// a SEQUENCE OF in another order than ascending data group numbers: legal, and the order is content
		for i, j := 0, len(d.Hashes)-1; i < j; i, j = i+1, j-1 {
			d.Hashes[i], d.Hashes[j] = d.Hashes[j], d.Hashes[i]
		}
		if len(d.Hashes) > 2 && r.Intn(2) == 0 {
			d.Hashes[0], d.Hashes[1] = d.Hashes[1], d.Hashes[0]
		}
	}
	if version == 1 {
		d.LDSVersion, d.UnicodeVersion = sp("0108"), sp("040000")
	}
	return FileSpec{Kind: "SOD", SOD: d}, nil
}

// ShapeCOM builds an EF.COM listing the given data groups.
func ShapeCOM(dgs []int, r *rand.Rand) FileSpec {
	c := &COMSpec{LDSVersion: []string{"0107", "0108"}[r.Intn(2)], UnicodeVersion: []string{"040000", "050200"}[r.Intn(2)]}
	for _, n := range dgs {
		c.Tags = append(c.Tags, int(DGTag(n)))
	}
	return FileSpec{Kind: "COM", COM: c}
}

// ShapeDG1 draws a random DG1.
func ShapeDG1(r *rand.Rand) FileSpec {
	f := rMRZ(r)
	return FileSpec{Kind: "DG1", DG1: &DG1Spec{Fields: &f}}
}
