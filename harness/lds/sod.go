package lds

import (
	"fmt"
)

// LDSSecurityObject (Doc 9303-10 §4.6.2.3):
//
//	LDSSecurityObject ::= SEQUENCE {
//	  version             INTEGER { v0(0), v1(1) },
//	  hashAlgorithm       DigestAlgorithmIdentifier,
//	  dataGroupHashValues SEQUENCE SIZE (2..ub-DataGroups) OF DataGroupHash,
//	  ldsVersionInfo      LDSVersionInfo OPTIONAL }     -- present iff version is v1
//	DataGroupHash  ::= SEQUENCE { dataGroupNumber INTEGER, dataGroupHashValue OCTET STRING }
//	LDSVersionInfo ::= SEQUENCE { ldsVersion PrintableString, unicodeVersion PrintableString }

// EncodeLDSSecurityObject gives the DER eContent of EF.SOD for a spec.
func EncodeLDSSecurityObject(s *SODSpec) ([]byte, error) {
	if (s.LDSVersion == nil) != (s.UnicodeVersion == nil) {
		return nil, fmt.Errorf("lds: ldsVersion and unicodeVersion go together")
	}
	var hashes []byte
	for _, h := range s.Hashes {
		hashes = append(hashes, derSeq(derInt(int64(h.DG)), derOctets(h.Hash))...)
	}
	var vi []byte
	if s.LDSVersion != nil {
		vi = derSeq(derPrintable(*s.LDSVersion), derPrintable(*s.UnicodeVersion))
	}
	return derSeq(derInt(int64(s.Version)), s.HashAlgorithm.der(), derSeq(hashes), vi), nil
}

func expectedSOD(s *SODSpec) View {
	var hashes []any
	for _, h := range s.Hashes {
		hashes = append(hashes, View{"dataGroupNumber": h.DG, "dataGroupHashValue": hx(h.Hash)})
	}
	lso := View{"version": s.Version, "hashAlgorithm": algView(&s.HashAlgorithm), "dataGroupHashValues": hashes}
	if s.LDSVersion != nil {
		lso["ldsVersionInfo"] = View{"ldsVersion": *s.LDSVersion, "unicodeVersion": *s.UnicodeVersion}
	}
	ct := s.EContentType
	if ct == "" {
		ct = OIDLDSSecurityObject
	}
	return View{"eContentType": ct, "ldsSecurityObject": lso}
}

// DecodeLDSSecurityObject is the reference reading of the eContent of EF.SOD.
func DecodeLDSSecurityObject(eContent []byte) (View, error) {
	root, err := readOne(eContent, 0x30)
	if err != nil {
		return nil, err
	}
	f, err := readAll(root.val)
	if err != nil {
		return nil, err
	}
	if len(f) < 3 || len(f) > 4 || f[0].tag != 0x02 || f[1].tag != 0x30 || f[2].tag != 0x30 {
		return nil, fmt.Errorf("lds: malformed LDSSecurityObject")
	}
	ver, err := parseIntContent(f[0].val)
	if err != nil {
		return nil, err
	}
	alg, err := parseAlgID(f[1].val)
	if err != nil {
		return nil, err
	}
	hs, err := readAll(f[2].val)
	if err != nil {
		return nil, err
	}
	var hashes []any
	seen := map[int64]bool{}
	for _, h := range hs {
		hf, err := readAll(h.val)
		if err != nil {
			return nil, err
		}
		if h.tag != 0x30 || len(hf) != 2 || hf[0].tag != 0x02 || hf[1].tag != 0x04 {
			return nil, fmt.Errorf("lds: malformed DataGroupHash")
		}
		n, err := parseIntContent(hf[0].val)
		if err != nil {
			return nil, err
		}
		if n < 1 || n > 16 || seen[n] {
			return nil, fmt.Errorf("lds: data group number %d out of range or repeated", n)
		}
		seen[n] = true
		hashes = append(hashes, View{"dataGroupNumber": n, "dataGroupHashValue": hx(hf[1].val)})
	}
	lso := View{"version": ver, "hashAlgorithm": alg, "dataGroupHashValues": hashes}
	if len(f) == 4 {
		vf, err := readAll(f[3].val)
		if err != nil {
			return nil, err
		}
		if f[3].tag != 0x30 || len(vf) != 2 || vf[0].tag != 0x13 || vf[1].tag != 0x13 {
			return nil, fmt.Errorf("lds: malformed LDSVersionInfo")
		}
		lso["ldsVersionInfo"] = View{"ldsVersion": string(vf[0].val), "unicodeVersion": string(vf[1].val)}
	}
	if (ver == 1) != (len(f) == 4) || ver < 0 || ver > 1 {
		return nil, fmt.Errorf("lds: LDSSecurityObject version %d inconsistent with ldsVersionInfo presence", ver)
	}
	return lso, nil
}

// WrapUnsignedSignedData puts eContent into a CMS ContentInfo / SignedData (RFC 5652) with
// one digest algorithm, no certificates and no signer infos. Structure only.
func WrapUnsignedSignedData(eContentType string, eContent []byte, digestOID string) []byte {
	if digestOID == "" {
		digestOID = "2.16.840.1.101.3.4.2.1"
	}
	sd := derSeq(
		derInt(3),
		derSet(derSeq(mustOID(digestOID))),
		derSeq(mustOID(eContentType), der(0xA0, derOctets(eContent))),
		derSet(),
	)
	return derSeq(mustOID(oidSignedData), der(0xA0, sd))
}

// ExtractEContent reads a definite-length DER ContentInfo holding a SignedData and returns
// the encapsulated content type and content.
func ExtractEContent(signedData []byte) (eContentType string, eContent []byte, err error) {
	ci, err := readOne(signedData, 0x30)
	if err != nil {
		return "", nil, err
	}
	cf, err := readAll(ci.val)
	if err != nil {
		return "", nil, err
	}
	if len(cf) != 2 || cf[0].tag != 0x06 || cf[1].tag != 0xA0 {
		return "", nil, fmt.Errorf("lds: malformed ContentInfo")
	}
	if oid, _ := parseOIDContent(cf[0].val); oid != oidSignedData {
		return "", nil, fmt.Errorf("lds: ContentInfo type %s is not signedData", oid)
	}
	sd, err := readOne(cf[1].val, 0x30)
	if err != nil {
		return "", nil, err
	}
	sf, err := readAll(sd.val)
	if err != nil {
		return "", nil, err
	}
	// version, digestAlgorithms, encapContentInfo, [0] certificates, [1] crls, signerInfos
	if len(sf) < 4 || sf[0].tag != 0x02 || sf[1].tag != 0x31 || sf[2].tag != 0x30 {
		return "", nil, fmt.Errorf("lds: malformed SignedData")
	}
	ef, err := readAll(sf[2].val)
	if err != nil {
		return "", nil, err
	}
	if len(ef) != 2 || ef[0].tag != 0x06 || ef[1].tag != 0xA0 {
		return "", nil, fmt.Errorf("lds: encapContentInfo without content")
	}
	if eContentType, err = parseOIDContent(ef[0].val); err != nil {
		return "", nil, err
	}
	oct, err := readOne(ef[1].val, 0x04)
	if err != nil {
		return "", nil, err
	}
	return eContentType, oct.val, nil
}

func decodeSOD(raw []byte) (View, error) {
	root, err := readOne(raw, 0x77)
	if err != nil {
		return nil, err
	}
	ct, ec, err := ExtractEContent(root.val)
	if err != nil {
		return nil, err
	}
	if ct != OIDLDSSecurityObject {
		return nil, fmt.Errorf("lds: EF.SOD eContentType is %s", ct)
	}
	lso, err := DecodeLDSSecurityObject(ec)
	if err != nil {
		return nil, err
	}
	return View{"eContentType": ct, "ldsSecurityObject": lso}, nil
}
