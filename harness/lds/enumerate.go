package lds

import (
	"fmt"
	"math/rand"
)

// Enumerate lists file descriptions of a kind that systematically cover its optional-field
// and repetition space: every subset of optional elements for the small kinds, pairwise
// coverage (all four presence combinations of every two optional elements) for DG11 and
// DG12, and every repetition count 1..depth (0..depth where the element as a whole is
// optional) for repeated elements. Content values are fixed by a seed derived from the
// position, so the list is deterministic. Combine with EnumerateOpts for encoding variants.
func Enumerate(kind string, depth int) []FileSpec {
	if depth < 1 {
		depth = 1
	}
	r := rand.New(rand.NewSource(int64(len(kind))*1000 + int64(depth)))
	var out []FileSpec
	add := func(s FileSpec) { out = append(out, s) }
	switch kind {
	case "DG1":
		for _, format := range []string{"TD1", "TD2", "TD3"} {
			for _, sec := range []bool{true, false} {
				for _, sex := range []string{"M", "F", ""} {
					for optv := 0; optv < 4; optv++ { // optional data: empty, short, full, with inner fillers
						for _, long := range []bool{false, true} {
							if long && format == "TD3" {
								continue
							}
							f := MRZFields{Format: format, DocumentCode: "P", IssuingState: "UTO", Primary: "ERIKSSON", Nationality: "UTO",
								DocumentNumber: "L898902C3", DateOfBirth: "740812", Sex: sex, DateOfExpiry: "120415"}
							if sec {
								f.Secondary = "ANNA MARIA"
							}
							if format != "TD3" {
								f.DocumentCode = "I"
							}
							optMax := map[string]int{"TD1": 15, "TD2": 7, "TD3": 14}[format]
							if long {
								f.DocumentNumber = "D23145890734"
								optMax -= 5
							}
							switch optv {
							case 1:
								f.OptionalData = "ZE1"[:min(3, optMax)]
							case 2:
								f.OptionalData = rword(r, alphaNum, optMax, optMax)
							case 3:
								f.OptionalData = "AB CD 7"[:min(7, optMax)]
							}
							if format == "TD1" && optv > 0 {
								f.OptionalData2 = rword(r, alphaNum, 1, 11)
							}
							ff := f
							add(FileSpec{Kind: kind, DG1: &DG1Spec{Fields: &ff}})
							if format == "TD3" && optv == 0 {
								f.EmptyOptionalCheckDigitZero = true
								fz := f
								add(FileSpec{Kind: kind, DG1: &DG1Spec{Fields: &fz}})
							}
						}
					}
				}
			}
		}
		// short document number, one-letter state code, name filling the whole field
		f := MRZFields{Format: "TD3", DocumentCode: "P", IssuingState: "D", Primary: "ABCDEFGHIJKLMNOPQRS", Secondary: "ABCDEFGHIJKLMNOPQR",
			DocumentNumber: "C01X", Nationality: "D", DateOfBirth: "640812", Sex: "F", DateOfExpiry: "270228"}
		add(FileSpec{Kind: kind, DG1: &DG1Spec{Fields: &f}})
	case "DG2":
		h19 := BHTSpec{ICAOHeaderVersion: HexBytes{1, 1}, BiometricType: HexBytes{2}, BiometricSubType: HexBytes{0}, FormatOwner: HexBytes{1, 1}, FormatType: HexBytes{0, 8}}
		h39 := BHTSpec{ICAOHeaderVersion: HexBytes{1, 1}, BiometricType: HexBytes{2}, FormatOwner: HexBytes{1, 1}, FormatType: HexBytes{0, 0x1B}}
		rec := func(m int) *FaceRecordSpec {
			x := &FaceRecordSpec{}
			for k := 0; k < m; k++ {
				x.Faces = append(x.Faces, rFace(r))
			}
			return x
		}
		b39 := func(id int) *Face39794Spec {
			return &Face39794Spec{Generation: 3, Year: 2019, Representations: []Rep39794Spec{{ID: id, Image: rimage(r), ImageDataFormat: 2}}}
		}
		// t templates x m images per ISO/IEC 19794-5 record
		for t := 1; t <= depth; t++ {
			for m := 1; m <= depth; m++ {
				d := &DG2Spec{}
				for i := 0; i < t; i++ {
					d.Templates = append(d.Templates, BITSpec{Header: h19, ISO19794: rec(m)})
				}
				add(FileSpec{Kind: kind, DG2: d})
			}
		}
		// t templates ISO/IEC 39794-5, and mixtures of both encodings
		for t := 1; t <= depth; t++ {
			d, mix := &DG2Spec{}, &DG2Spec{}
			for i := 0; i < t; i++ {
				d.Templates = append(d.Templates, BITSpec{Header: h39, ISO39794: b39(i + 1)})
				if i%2 == 0 {
					mix.Templates = append(mix.Templates, BITSpec{Header: h19, ISO19794: rec(1 + i%depth)})
				} else {
					mix.Templates = append(mix.Templates, BITSpec{Header: h39, ISO39794: b39(i + 1)})
				}
			}
			add(FileSpec{Kind: kind, DG2: d})
			if t > 1 {
				add(FileSpec{Kind: kind, DG2: mix})
			}
		}
		// every subset of the optional header elements (format owner / type kept)
		for mask := 0; mask < 64; mask++ {
			h := BHTSpec{FormatOwner: HexBytes{1, 1}, FormatType: HexBytes{0, 8}}
			if mask&1 != 0 {
				h.ICAOHeaderVersion = HexBytes{1, 1}
			}
			if mask&2 != 0 {
				h.BiometricType = HexBytes{2}
			}
			if mask&4 != 0 {
				h.BiometricSubType = HexBytes{0}
			}
			if mask&8 != 0 {
				h.CreationDateTime = encodeDate("20190314153000", true)
			}
			if mask&16 != 0 {
				h.ValidityPeriod = encodeDate("2019031420290314", true)
			}
			if mask&32 != 0 {
				h.Creator = HexBytes{0, 1}
			}
			add(FileSpec{Kind: kind, DG2: &DG2Spec{Templates: []BITSpec{{Header: h, ISO19794: rec(1)}}}})
		}
		// every subset of the optional elements of an ISO/IEC 39794-5 representation
		for mask := 0; mask < 64; mask++ {
			rep := Rep39794Spec{ID: 1, Image: rimage(r), ImageDataFormat: 2}
			if mask&1 != 0 {
				rep.FaceImageKind2D = ip(1)
			}
			if mask&2 != 0 {
				rep.ImageSize = &[2]int{480, 640}
			}
			if mask&4 != 0 {
				rep.ColourSpace = ip(2)
			}
			if mask&8 != 0 {
				rep.CaptureDateTime = &DateTime39794{Year: 2024, Month: ip(2), Day: ip(29), Hour: ip(0), Minute: ip(7), Second: ip(59), Millisecond: ip(250)}
			}
			if mask&16 != 0 {
				rep.SessionID = ip(300)
			}
			if mask&32 != 0 {
				rep.DerivedFrom = ip(1)
			}
			add(FileSpec{Kind: kind, DG2: &DG2Spec{Templates: []BITSpec{{Header: h39, ISO39794: &Face39794Spec{Generation: 3, Year: 2019, Representations: []Rep39794Spec{rep}}}}}})
		}
		// feature points 0..depth
		for n := 0; n <= depth; n++ {
			f := rFace(r)
			f.FeaturePoints = nil
			for i := 0; i < n; i++ {
				f.FeaturePoints = append(f.FeaturePoints, FeaturePointSpec{Type: 1, Major: 2 + i, Minor: 1 + i, X: 100 + 257*i, Y: 300 + 513*i})
			}
			add(FileSpec{Kind: kind, DG2: &DG2Spec{Templates: []BITSpec{{Header: h19, ISO19794: &FaceRecordSpec{Faces: []FaceSpec{f}}}}}})
		}
	case "DG7":
		for n := 1; n <= depth; n++ {
			for _, format := range []string{"jpeg", "jp2", "j2k"} {
				d := &DG7Spec{}
				for i := 0; i < n; i++ {
					d.Images = append(d.Images, ImageSpec{Format: format, Size: 40 + 10*i, Fill: i + 1})
				}
				add(FileSpec{Kind: kind, DG7: d})
			}
		}
	case "DG11":
		const nf = 13
		build := func(mask, names int) FileSpec {
			d := &DG11Spec{}
			on := func(i int) bool { return mask&(1<<i) != 0 }
			if on(0) {
				n := rname(r, true)
				d.NameOfHolder = &n
			}
			if on(1) {
				for i := 0; i < names; i++ {
					d.OtherNames = append(d.OtherNames, rname(r, true))
				}
			}
			if on(2) {
				d.PersonalNumber = sp(rword(r, alphaNum, 6, 12))
			}
			if on(3) {
				d.FullDateOfBirth = sp(rdate(r))
			}
			if on(4) {
				d.PlaceOfBirth = rlist(r, depth, false)
			}
			if on(5) {
				d.Address = rlist(r, depth+1, false)
			}
			if on(6) {
				d.Telephone = sp(rtel(r))
			}
			if on(7) {
				d.Profession = sp(rwords(r, true, 1, 2))
			}
			if on(8) {
				d.Title = sp(rwords(r, true, 1, 1))
			}
			if on(9) {
				d.PersonalSummary = sp(rwords(r, true, 2, 4))
			}
			if on(10) {
				im := rimage(r)
				d.ProofOfCitizenship = &im
			}
			if on(11) {
				for i := 0; i <= r.Intn(depth); i++ {
					d.OtherValidTDNumbers = append(d.OtherValidTDNumbers, rword(r, alphaNum, 6, 9))
				}
			}
			if on(12) {
				d.CustodyInformation = sp(rwords(r, true, 1, 3))
			}
			return FileSpec{Kind: kind, DG11: d}
		}
		for _, mask := range pairwiseMasks(nf) {
			add(build(mask, 1+len(out)%depth))
		}
		for n := 1; n <= depth; n++ { // other names 1..depth alone and with everything else
			add(build(1<<1, n))
			add(build(1<<nf-1, n))
		}
	case "DG12":
		const nf = 9
		build := func(mask, names int) FileSpec {
			d := &DG12Spec{}
			on := func(i int) bool { return mask&(1<<i) != 0 }
			if on(0) {
				d.IssuingAuthority = sp(rwords(r, true, 1, 3))
			}
			if on(1) {
				d.DateOfIssue = sp(rdate(r))
			}
			if on(2) {
				for i := 0; i < names; i++ {
					d.OtherPersons = append(d.OtherPersons, rname(r, true))
				}
			}
			if on(3) {
				d.EndorsementsAndObservations = sp(rwords(r, true, 1, 5))
			}
			if on(4) {
				d.TaxExitRequirements = sp(rwords(r, true, 1, 3))
			}
			if on(5) {
				im := rimage(r)
				d.ImageFront = &im
			}
			if on(6) {
				im := rimage(r)
				d.ImageRear = &im
			}
			if on(7) {
				d.DateTimeOfPersonalization = sp(rdatetime(r))
			}
			if on(8) {
				d.PersonalizationSystemSerial = sp(rword(r, alphaNum, 4, 12))
			}
			return FileSpec{Kind: kind, DG12: d}
		}
		for _, mask := range pairwiseMasks(nf) {
			add(build(mask, 1+len(out)%depth))
		}
		for n := 1; n <= depth; n++ {
			add(build(1<<2, n))
			add(build(1<<nf-1, n))
		}
	case "DG13":
		for _, c := range [][]byte{{}, {0x00}, der(0x5F40, []byte("ABC")), {0x5F, 0x40, 0x09, 0x01}, rbytes(r, 127), rbytes(r, 128), rbytes(r, 300)} {
			add(FileSpec{Kind: kind, DG13: &DG13Spec{Content: c}})
		}
	case "DG14", "CardAccess", "CardSecurity":
		one := func(infos ...SecInfoSpec) { add(FileSpec{Kind: kind, SecurityInfos: &SecInfosSpec{Infos: infos}}) }
		variants := map[string][]SecInfoSpec{}
		for _, t := range secInfoTypes {
			// draw until both the with- and the without-optional-element variant were seen
			seen := map[bool]bool{}
			for i := 0; i < 200 && len(seen) < 2; i++ {
				x := rSecInfo(r, t)
				has := x.ParameterID != nil || x.KeyID != nil || x.EFCVCA != nil || len(x.Body) > 4
				if !seen[has] {
					seen[has] = true
					variants[t] = append(variants[t], x)
				}
			}
		}
		for _, t := range secInfoTypes {
			for _, v := range variants[t] {
				one(v)
			}
			for n := 2; n <= depth; n++ { // multiplicity
				var l []SecInfoSpec
				for i := 0; i < n; i++ {
					l = append(l, rSecInfo(r, t))
				}
				one(l...)
			}
		}
		for i, a := range secInfoTypes { // every two types together
			for _, b := range secInfoTypes[i+1:] {
				one(rSecInfo(r, a), rSecInfo(r, b))
			}
		}
		var all []SecInfoSpec
		for _, t := range secInfoTypes {
			all = append(all, rSecInfo(r, t))
		}
		one(all...)
		one() // empty SET
	case "DG15":
		for _, b := range []int{1024, 2048, 3072} {
			add(FileSpec{Kind: kind, DG15: &DG15Spec{Alg: "rsa", Bits: b, Seed: b}})
		}
		for _, b := range []int{192, 224, 256, 257, 384, 385, 512, 521} {
			add(FileSpec{Kind: kind, DG15: &DG15Spec{Alg: "ec", Bits: b, Seed: b}})
		}
		add(FileSpec{Kind: kind, DG15: &DG15Spec{Alg: "ec-explicit", Bits: 256, Seed: 7}})
	case "DG16":
		for n := 1; n <= depth; n++ {
			for a := 1; a <= depth; a++ {
				for _, sec := range []bool{true, false} {
					d := &DG16Spec{}
					for i := 0; i < n; i++ {
						p := PersonSpec{DateRecorded: rdate(r), Name: rname(r, true), Telephone: rtel(r)}
						if !sec {
							p.Name.Secondary = ""
						} else if p.Name.Secondary == "" {
							p.Name.Secondary = "ANNA"
						}
						for k := 0; k < a; k++ {
							p.Address = append(p.Address, rwords(r, true, 1, 2))
						}
						d.Persons = append(d.Persons, p)
					}
					add(FileSpec{Kind: kind, DG16: d})
				}
			}
		}
	case "COM":
		for _, lv := range []string{"0107", "0108"} {
			for _, uv := range []string{"040000", "050200"} {
				base := []int{0x61, 0x75}
				add(FileSpec{Kind: kind, COM: &COMSpec{LDSVersion: lv, UnicodeVersion: uv, Tags: base}})
				all := append([]int(nil), base...)
				for _, n := range optionalDGs {
					add(FileSpec{Kind: kind, COM: &COMSpec{LDSVersion: lv, UnicodeVersion: uv, Tags: append(append([]int(nil), base...), int(DGTag(n)))}})
					all = append(all, int(DGTag(n)))
				}
				add(FileSpec{Kind: kind, COM: &COMSpec{LDSVersion: lv, UnicodeVersion: uv, Tags: all}})
			}
		}
	case "SOD":
		for _, h := range hashAlgs {
			for _, null := range []bool{false, true} {
				for _, v1 := range []bool{false, true} {
					for set := 0; set < 3; set++ {
						d := &SODSpec{HashAlgorithm: AlgIDSpec{OID: h.oid}}
						if null {
							d.HashAlgorithm.Params = derNull()
						}
						dgs := []int{1, 2}
						switch set {
						case 1:
							dgs = []int{1, 2, 3, 7, 11, 12, 14, 15}
						case 2:
							dgs = []int{1, 2, 3, 4, 5, 6, 7, 8, 9, 10, 11, 12, 13, 14, 15, 16}
						}
						for _, n := range dgs {
							d.Hashes = append(d.Hashes, DGHashSpec{n, rbytes(r, h.n)})
						}
						if v1 {
							d.Version = 1
							d.LDSVersion, d.UnicodeVersion = sp("0108"), sp("040000")
						}
						add(FileSpec{Kind: kind, SOD: d})
					}
				}
			}
		}
	default:
		panic("lds: unknown kind " + kind)
	}
	return out
}

// pairwiseMasks gives presence masks over n optional elements such that for every two
// elements all four presence combinations occur: nothing, everything, each element alone,
// each two elements alone, everything but one.
func pairwiseMasks(n int) []int {
	all := 1<<n - 1
	out := []int{0, all}
	for i := 0; i < n; i++ {
		out = append(out, 1<<i, all&^(1<<i))
		for j := i + 1; j < n; j++ {
			out = append(out, 1<<i|1<<j)
		}
	}
	return out
}

// EnumerateOpts lists the encoding variants that matter for a kind: both date encodings,
// the three length forms, and a few permutations of tag list / element / SET order.
func EnumerateOpts(kind string) []EncodeOpts {
	out := []EncodeOpts{{}, {LengthForm: 1}, {LengthForm: 2}}
	switch kind {
	case "DG11", "DG12":
		out = append(out, EncodeOpts{BCDDates: true}, EncodeOpts{Permute: 1}, EncodeOpts{Permute: 2, BCDDates: true},
			EncodeOpts{Permute: 3, TagListOnly: true}, EncodeOpts{Permute: 4, LengthForm: 1, BCDDates: true})
	case "DG16":
		out = append(out, EncodeOpts{BCDDates: true}, EncodeOpts{BCDDates: true, LengthForm: 1})
	case "DG14", "CardAccess", "CardSecurity", "COM":
		out = append(out, EncodeOpts{Permute: 1}, EncodeOpts{Permute: 2}, EncodeOpts{Permute: 3, LengthForm: 1})
	}
	return out
}

// WrongTagPair is a well-formed file of one kind presented as another data group.
type WrongTagPair struct {
	Kind string   `json:"kind"` // what the bytes are
	AsDG int      `json:"asDG"` // the data group number they are presented as (1..16)
	Spec FileSpec `json:"spec"`
	Raw  HexBytes `json:"raw"`
}

// WrongTagPairs pairs representative files of every kind with every data group number
// other than their own. A reader asked for data group AsDG must reject Raw.
func WrongTagPairs() []WrongTagPair {
	var out []WrongTagPair
	for _, kind := range Kinds {
		specs := Enumerate(kind, 2)
		picks := []FileSpec{specs[0], specs[len(specs)/2], specs[len(specs)-1]}
		if kind == "DG14" || kind == "CardAccess" || kind == "CardSecurity" {
			picks[2] = specs[len(specs)-2] // not the empty SET twice
		}
		for i, s := range picks {
			raw, err := Encode(s, EncodeOpts{LengthForm: i % 3})
			if err != nil {
				panic(fmt.Sprintf("lds: WrongTagPairs: %v", err))
			}
			for n := 1; n <= 16; n++ {
				if n == KindDG(kind) {
					continue
				}
				out = append(out, WrongTagPair{Kind: kind, AsDG: n, Spec: s, Raw: raw})
			}
		}
	}
	return out
}

// PrefixedFile is a complete template of kind Front followed by a complete template of kind
// AsKind: the outer (first) tag of Raw belongs to Front, so a reader asked for AsKind must
// reject it even though the template it wants is in there.
type PrefixedFile struct {
	Front  string   `json:"front"`
	AsKind string   `json:"asKind"`
	Raw    HexBytes `json:"raw"`
}

// ForeignPrefixPairs builds Front || AsKind for every two different kinds among the data
// groups, EF.COM and EF.SOD.
func ForeignPrefixPairs() []PrefixedFile {
	kinds := []string{"DG1", "DG2", "DG7", "DG11", "DG12", "DG13", "DG14", "DG15", "DG16", "COM", "SOD"}
	raws := map[string][]byte{}
	for _, k := range kinds {
		raw, err := Encode(Enumerate(k, 1)[0], EncodeOpts{})
		if err != nil {
			panic(err)
		}
		raws[k] = raw
	}
	var out []PrefixedFile
	for _, a := range kinds {
		for _, b := range kinds {
			if a != b {
				out = append(out, PrefixedFile{Front: a, AsKind: b, Raw: cat(raws[a], raws[b])})
			}
		}
	}
	return out
}
