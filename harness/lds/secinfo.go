package lds

import (
	"fmt"
	"math/rand"
	"strings"
)

// Object identifiers (Doc 9303-11 §9.2, BSI TR-03110-3 A.1).
const (
	oidBSI               = "0.4.0.127.0.7"
	OIDPK                = oidBSI + ".2.2.1"   // id-PK: .1 DH, .2 ECDH
	OIDTA                = oidBSI + ".2.2.2"   // id-TA
	OIDCA                = oidBSI + ".2.2.3"   // id-CA: .1 DH, .2 ECDH, then .1 3DES .2 AES-128 .3 AES-192 .4 AES-256
	OIDPACE              = oidBSI + ".2.2.4"   // id-PACE: .1 DH-GM .2 ECDH-GM .3 DH-IM .4 ECDH-IM .6 ECDH-CAM, then cipher
	OIDAA                = "2.23.136.1.1.5"    // id-icao-mrtd-security-aaProtocolObject
	OIDEFDIR             = "2.23.136.1.1.13"   // id-EFDIR
	OIDECDSA             = oidBSI + ".1.1.4.1" // ecdsa-plain-signatures: .1 SHA-1 .2 SHA-224 .3 SHA-256 .4 SHA-384 .5 SHA-512
	OIDSecurityObject    = oidBSI + ".3.2.1"   // id-SecurityObject (EF.CardSecurity eContentType)
	OIDLDSSecurityObject = "2.23.136.1.1.1"    // id-icao-mrtd-security-ldsSecurityObject
	oidSignedData        = "1.2.840.113549.1.7.2"
)

// classify gives the SecurityInfo type selected by a protocol identifier.
func classifySecInfo(oid string) string {
	under := func(base string) (rest []string, ok bool) {
		if oid == base {
			return nil, true
		}
		if strings.HasPrefix(oid, base+".") {
			return strings.Split(oid[len(base)+1:], "."), true
		}
		return nil, false
	}
	if rest, ok := under(OIDPACE); ok {
		switch len(rest) {
		case 1:
			return "paceDomain"
		case 2:
			return "pace"
		}
		return "unknown"
	}
	if rest, ok := under(OIDCA); ok {
		if len(rest) == 2 {
			return "chipAuth"
		}
		return "unknown"
	}
	if rest, ok := under(OIDPK); ok {
		if len(rest) == 1 {
			return "chipAuthPublicKey"
		}
		return "unknown"
	}
	if rest, ok := under(OIDTA); ok {
		// TerminalAuthenticationInfo carries id-TA itself; the signature algorithms below it
		// (id-TA-RSA.., id-TA-ECDSA..) never appear as a SecurityInfo protocol.
		if len(rest) == 0 {
			return "terminalAuth"
		}
		return "unknown"
	}
	switch oid {
	case OIDAA:
		return "activeAuth"
	case OIDEFDIR:
		return "efDir"
	}
	return "unknown"
}

func (a *AlgIDSpec) der() []byte { return derSeq(mustOID(a.OID), a.Params) }

func (s *SPKISpec) der() []byte { return derSeq(s.Alg.der(), derBits(s.Key, s.UnusedBits)) }

func (s *SecInfoSpec) der() ([]byte, error) {
	oid := mustOID(s.OID)
	optInt := func(p *int64) []byte {
		if p == nil {
			return nil
		}
		return derInt(*p)
	}
	if got := classifySecInfo(s.OID); got != s.Type {
		return nil, fmt.Errorf("lds: protocol %s selects %s, spec says %s", s.OID, got, s.Type)
	}
	switch s.Type {
	case "pace":
		return derSeq(oid, derInt(int64(s.Version)), optInt(s.ParameterID)), nil
	case "paceDomain":
		if s.DomainParameter == nil {
			return nil, fmt.Errorf("lds: paceDomain needs domainParameter")
		}
		return derSeq(oid, s.DomainParameter.der(), optInt(s.ParameterID)), nil
	case "chipAuth":
		return derSeq(oid, derInt(int64(s.Version)), optInt(s.KeyID)), nil
	case "chipAuthPublicKey":
		if s.PublicKey == nil {
			return nil, fmt.Errorf("lds: chipAuthPublicKey needs a key")
		}
		return derSeq(oid, s.PublicKey.der(), optInt(s.KeyID)), nil
	case "activeAuth":
		return derSeq(oid, derInt(int64(s.Version)), mustOID(s.SignatureAlgorithm)), nil
	case "terminalAuth":
		var f []byte
		if s.EFCVCA != nil {
			f = derOctets(s.EFCVCA.FID)
			if s.EFCVCA.SFID != nil {
				f = append(f, derOctets(s.EFCVCA.SFID)...)
			}
			f = derSeq(f)
		}
		return derSeq(oid, derInt(int64(s.Version)), f), nil
	case "efDir":
		return derSeq(oid, derOctets(s.EFDir)), nil
	case "unknown":
		return derSeq(oid, s.Body), nil
	}
	return nil, fmt.Errorf("lds: unknown SecurityInfo type %q", s.Type)
}

func encodeSecurityInfos(s *SecInfosSpec, opts EncodeOpts) ([]byte, error) {
	order := make([]int, len(s.Infos))
	for i := range order {
		order[i] = i
	}
	if opts.Permute != 0 {
		rand.New(rand.NewSource(opts.Permute)).Shuffle(len(order), func(i, j int) { order[i], order[j] = order[j], order[i] })
	}
	var body []byte
	for _, i := range order {
		d, err := s.Infos[i].der()
		if err != nil {
			return nil, err
		}
		body = append(body, d...)
	}
	return derSet(body), nil
}

// EncodeSecurityInfos gives the DER SET OF SecurityInfo for a spec (the eContent of
// EF.CardSecurity, the content of DG14, the whole of EF.CardAccess).
func EncodeSecurityInfos(s *SecInfosSpec, opts EncodeOpts) ([]byte, error) {
	return encodeSecurityInfos(s, opts)
}

var secInfoLists = map[string]string{
	"pace": "paceInfos", "paceDomain": "paceDomainParameterInfos", "chipAuth": "chipAuthenticationInfos",
	"chipAuthPublicKey": "chipAuthenticationPublicKeyInfos", "activeAuth": "activeAuthenticationInfos",
	"terminalAuth": "terminalAuthenticationInfos", "efDir": "efDirInfos", "unknown": "unknownInfos",
}

func algView(a *AlgIDSpec) View {
	v := View{"algorithm": a.OID}
	if len(a.Params) > 0 {
		v["parameters"] = hx(a.Params)
	}
	return v
}

// expectedSecurityInfos groups the entries by type, each group in the order given. Because
// a SET carries no order, groups are sorted by their JSON text (sortInfoList).
func expectedSecurityInfos(s *SecInfosSpec) View {
	out := View{}
	for i := range s.Infos {
		x := &s.Infos[i]
		v := View{"protocol": x.OID}
		switch x.Type {
		case "pace":
			v["version"] = x.Version
			if x.ParameterID != nil {
				v["parameterId"] = *x.ParameterID
			}
		case "paceDomain":
			v["domainParameter"] = algView(x.DomainParameter)
			if x.ParameterID != nil {
				v["parameterId"] = *x.ParameterID
			}
		case "chipAuth":
			v["version"] = x.Version
			if x.KeyID != nil {
				v["keyId"] = *x.KeyID
			}
		case "chipAuthPublicKey":
			v["chipAuthenticationPublicKey"] = View{"algorithm": algView(&x.PublicKey.Alg), "subjectPublicKey": hx(x.PublicKey.Key), "unusedBits": x.PublicKey.UnusedBits}
			if x.KeyID != nil {
				v["keyId"] = *x.KeyID
			}
		case "activeAuth":
			v["version"] = x.Version
			v["signatureAlgorithm"] = x.SignatureAlgorithm
		case "terminalAuth":
			v["version"] = x.Version
			if x.EFCVCA != nil {
				f := View{"fid": hx(x.EFCVCA.FID)}
				if x.EFCVCA.SFID != nil {
					f["sfid"] = hx(x.EFCVCA.SFID)
				}
				v["efCVCA"] = f
			}
		case "efDir":
			v["efDir"] = hx(x.EFDir)
		case "unknown":
			d, _ := x.der()
			v["raw"] = hx(d)
		}
		key := secInfoLists[x.Type]
		l, _ := out[key].([]any)
		out[key] = append(l, v)
	}
	for k, l := range out {
		out[k] = sortInfoList(l.([]any))
	}
	return out
}

func sortInfoList(l []any) []any {
	keys := make([]string, len(l))
	for i := range l {
		keys[i] = short2(l[i])
	}
	out := append([]any(nil), l...)
	for i := 1; i < len(out); i++ {
		for j := i; j > 0 && keys[j] < keys[j-1]; j-- {
			out[j], out[j-1] = out[j-1], out[j]
			keys[j], keys[j-1] = keys[j-1], keys[j]
		}
	}
	return out
}

func short2(v any) string { return View{"x": v}.JSON() }

// SortSecurityInfoLists orders every list of a securityInfos view canonically (a SET OF has
// no order). Decode and ExpectedView already return sorted lists; projections of other
// implementations call this before comparing.
func SortSecurityInfoLists(v View) View {
	out := View{}
	for k, l := range v {
		if ll, ok := Normalize(l).([]any); ok {
			out[k] = sortInfoList(ll)
		} else {
			out[k] = l
		}
	}
	return out
}

func parseAlgID(b []byte) (View, error) {
	items, err := readAll(b)
	if err != nil {
		return nil, err
	}
	if len(items) < 1 || len(items) > 2 || items[0].tag != 0x06 {
		return nil, fmt.Errorf("lds: malformed AlgorithmIdentifier")
	}
	oid, err := parseOIDContent(items[0].val)
	if err != nil {
		return nil, err
	}
	v := View{"algorithm": oid}
	if len(items) == 2 {
		v["parameters"] = hx(items[1].full)
	}
	return v, nil
}

func parseSPKI(b []byte) (View, error) {
	items, err := readAll(b)
	if err != nil {
		return nil, err
	}
	if len(items) != 2 || items[0].tag != 0x30 || items[1].tag != 0x03 || len(items[1].val) < 1 || items[1].val[0] > 7 {
		return nil, fmt.Errorf("lds: malformed SubjectPublicKeyInfo")
	}
	alg, err := parseAlgID(items[0].val)
	if err != nil {
		return nil, err
	}
	return View{"algorithm": alg, "subjectPublicKey": hx(items[1].val[1:]), "unusedBits": int(items[1].val[0])}, nil
}

func checkSPKI(b []byte) error {
	it, err := readOne(b, 0x30)
	if err != nil {
		return err
	}
	_, err = parseSPKI(it.val)
	return err
}

// DecodeSecurityInfos reads a DER SET OF SecurityInfo.
func DecodeSecurityInfos(b []byte) (View, error) {
	set, err := readOne(b, 0x31)
	if err != nil {
		return nil, err
	}
	infos, err := readAll(set.val)
	if err != nil {
		return nil, err
	}
	out := View{}
	for _, si := range infos {
		if si.tag != 0x30 {
			return nil, fmt.Errorf("lds: SecurityInfo has tag %X", si.tag)
		}
		f, err := readAll(si.val)
		if err != nil {
			return nil, err
		}
		if len(f) < 2 || len(f) > 3 || f[0].tag != 0x06 {
			return nil, fmt.Errorf("lds: SecurityInfo must be protocol, requiredData [, optionalData]")
		}
		oid, err := parseOIDContent(f[0].val)
		if err != nil {
			return nil, err
		}
		typ := classifySecInfo(oid)
		v := View{"protocol": oid}
		reqInt := func(key string) error {
			if f[1].tag != 0x02 {
				return fmt.Errorf("lds: %s of %s is not an INTEGER", key, oid)
			}
			n, err := parseIntContent(f[1].val)
			v[key] = n
			return err
		}
		optInt := func(key string) error {
			if len(f) < 3 {
				return nil
			}
			if f[2].tag != 0x02 {
				return fmt.Errorf("lds: %s of %s is not an INTEGER", key, oid)
			}
			n, err := parseIntContent(f[2].val)
			v[key] = n
			return err
		}
		switch typ {
		case "pace":
			if err = reqInt("version"); err == nil {
				err = optInt("parameterId")
			}
		case "chipAuth":
			if err = reqInt("version"); err == nil {
				err = optInt("keyId")
			}
		case "paceDomain":
			if f[1].tag != 0x30 {
				return nil, fmt.Errorf("lds: domainParameter of %s is not a SEQUENCE", oid)
			}
			if v["domainParameter"], err = parseAlgID(f[1].val); err == nil {
				err = optInt("parameterId")
			}
		case "chipAuthPublicKey":
			if f[1].tag != 0x30 {
				return nil, fmt.Errorf("lds: public key of %s is not a SEQUENCE", oid)
			}
			if v["chipAuthenticationPublicKey"], err = parseSPKI(f[1].val); err == nil {
				err = optInt("keyId")
			}
		case "activeAuth":
			if err = reqInt("version"); err != nil {
				break
			}
			if len(f) != 3 || f[2].tag != 0x06 {
				return nil, fmt.Errorf("lds: ActiveAuthenticationInfo needs a signature algorithm")
			}
			v["signatureAlgorithm"], err = parseOIDContent(f[2].val)
		case "terminalAuth":
			if err = reqInt("version"); err != nil {
				break
			}
			if len(f) == 3 {
				if f[2].tag != 0x30 {
					return nil, fmt.Errorf("lds: efCVCA is not a SEQUENCE")
				}
				ff, e := readAll(f[2].val)
				if e != nil || len(ff) < 1 || len(ff) > 2 || ff[0].tag != 0x04 || (len(ff) == 2 && ff[1].tag != 0x04) {
					return nil, fmt.Errorf("lds: malformed FileID")
				}
				fv := View{"fid": hx(ff[0].val)}
				if len(ff) == 2 {
					fv["sfid"] = hx(ff[1].val)
				}
				v["efCVCA"] = fv
			}
		case "efDir":
			if len(f) != 2 || f[1].tag != 0x04 {
				return nil, fmt.Errorf("lds: EFDIRInfo needs an OCTET STRING")
			}
			v["efDir"] = hx(f[1].val)
		default:
			v["raw"] = hx(si.full)
		}
		if err != nil {
			return nil, err
		}
		key := secInfoLists[typ]
		l, _ := out[key].([]any)
		out[key] = append(l, v)
	}
	for k, l := range out {
		out[k] = sortInfoList(l.([]any))
	}
	return out, nil
}

// spki gives the SubjectPublicKeyInfo stored in DG15.
func (d *DG15Spec) spki() []byte {
	if d.SPKI != nil {
		return d.SPKI
	}
	return syntheticSPKI(d.Alg, d.Bits, d.Seed).der()
}

func fillBytes(n, seed int) []byte {
	out := make([]byte, n)
	x := uint32(seed)*2654435761 + 12345
	for i := range out {
		x = x*1664525 + 1013904223
		out[i] = byte(x >> 24)
	}
	return out
}

var curveOIDs = map[int]string{
	192: "1.2.840.10045.3.1.1", 224: "1.3.132.0.33", 256: "1.2.840.10045.3.1.7", 384: "1.3.132.0.34", 521: "1.3.132.0.35",
	// brainpoolP256r1 / P384r1 / P512r1 under other sizes
	257: "1.3.36.3.3.2.8.1.1.7", 385: "1.3.36.3.3.2.8.1.1.11", 512: "1.3.36.3.3.2.8.1.1.13",
}

// syntheticSPKI builds a syntactically correct SubjectPublicKeyInfo with arbitrary key
// material ("rsa": rsaEncryption; "ec": id-ecPublicKey with a named curve; "dh":
// dhpublicnumber with explicit p, g, q). The numbers are not real keys.
func syntheticSPKI(alg string, bits, seed int) *SPKISpec {
	posInt := func(n int) []byte {
		b := fillBytes(n, seed+n)
		b[0] |= 0x80
		return der(0x02, append([]byte{0}, b...))
	}
	switch alg {
	case "", "rsa":
		if bits == 0 {
			bits = 1024
		}
		key := derSeq(posInt(bits/8), der(0x02, []byte{0x01, 0x00, 0x01}))
		return &SPKISpec{Alg: AlgIDSpec{OID: "1.2.840.113549.1.1.1", Params: derNull()}, Key: key}
	case "ec":
		if bits == 0 {
			bits = 256
		}
		oid, ok := curveOIDs[bits]
		if !ok {
			oid = curveOIDs[256]
		}
		n := (bits + 7) / 8
		return &SPKISpec{Alg: AlgIDSpec{OID: "1.2.840.10045.2.1", Params: mustOID(oid)}, Key: append([]byte{4}, fillBytes(2*n, seed)...)}
	case "ec-explicit":
		if bits == 0 {
			bits = 256
		}
		n := (bits + 7) / 8
		// ECParameters (X9.62): version, fieldID, curve, base, order, cofactor
		params := derSeq(derInt(1), derSeq(mustOID("1.2.840.10045.1.1"), posInt(n)),
			derSeq(derOctets(fillBytes(n, seed+1)), derOctets(fillBytes(n, seed+2))),
			derOctets(append([]byte{4}, fillBytes(2*n, seed+3)...)), posInt(n), derInt(1))
		return &SPKISpec{Alg: AlgIDSpec{OID: "1.2.840.10045.2.1", Params: params}, Key: append([]byte{4}, fillBytes(2*n, seed)...)}
	case "dh":
		if bits == 0 {
			bits = 1024
		}
		params := derSeq(posInt(bits/8), der(0x02, []byte{2}), posInt(20))
		return &SPKISpec{Alg: AlgIDSpec{OID: "1.2.840.10046.2.1", Params: params}, Key: posInt(bits / 8)}
	}
	panic("lds: unknown key algorithm " + alg)
}
