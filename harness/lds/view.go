package lds

import (
	"bytes"
	"encoding/json"
	"fmt"
	"reflect"
	"sort"
)

// View is the normalised, JSON-serialisable picture of one LDS file: strings, numbers,
// lists and nested maps only. Byte strings are lower-case hexadecimal. Field names per kind
// are listed in doc.go. A field that is absent from the file is absent from the View.
type View map[string]any

// Normalize brings any JSON-serialisable value to the canonical in-memory form used for
// comparison (maps as map[string]any, lists as []any, numbers as float64).
func Normalize(v any) any {
	b, err := json.Marshal(v)
	if err != nil {
		panic(fmt.Sprintf("lds: view not serialisable: %v", err))
	}
	var out any
	dec := json.NewDecoder(bytes.NewReader(b))
	if err := dec.Decode(&out); err != nil {
		panic(err)
	}
	return out
}

// JSON renders a view with sorted keys.
func (v View) JSON() string {
	b, _ := json.Marshal(Normalize(v))
	return string(b)
}

// Equal reports whether two views are the same after normalisation.
func Equal(a, b View) bool { return reflect.DeepEqual(Normalize(a), Normalize(b)) }

// Diff lists the paths at which got differs from want ("path: want X, got Y"), sorted.
// An empty result means the views are equal.
func Diff(want, got View) []string {
	var out []string
	diff("", Normalize(want), Normalize(got), &out)
	sort.Strings(out)
	return out
}

func short(v any) string {
	b, _ := json.Marshal(v)
	if len(b) > 120 {
		return string(b[:117]) + "..."
	}
	return string(b)
}

func diff(path string, w, g any, out *[]string) {
	switch wt := w.(type) {
	case map[string]any:
		gt, ok := g.(map[string]any)
		if !ok {
			*out = append(*out, fmt.Sprintf("%s: want %s, got %s", path, short(w), short(g)))
			return
		}
		keys := map[string]bool{}
		for k := range wt {
			keys[k] = true
		}
		for k := range gt {
			keys[k] = true
		}
		for k := range keys {
			p := k
			if path != "" {
				p = path + "." + k
			}
			wv, wok := wt[k]
			gv, gok := gt[k]
			switch {
			case !wok:
				*out = append(*out, fmt.Sprintf("%s: want <absent>, got %s", p, short(gv)))
			case !gok:
				*out = append(*out, fmt.Sprintf("%s: want %s, got <absent>", p, short(wv)))
			default:
				diff(p, wv, gv, out)
			}
		}
	case []any:
		gt, ok := g.([]any)
		if !ok {
			*out = append(*out, fmt.Sprintf("%s: want %s, got %s", path, short(w), short(g)))
			return
		}
		if len(wt) != len(gt) {
			*out = append(*out, fmt.Sprintf("%s: want %d elements, got %d", path, len(wt), len(gt)))
		}
		for i := 0; i < len(wt) && i < len(gt); i++ {
			diff(fmt.Sprintf("%s[%d]", path, i), wt[i], gt[i], out)
		}
	default:
		if !reflect.DeepEqual(w, g) {
			*out = append(*out, fmt.Sprintf("%s: want %s, got %s", path, short(w), short(g)))
		}
	}
}

// small helpers used by the per-kind code

func put(v View, key string, val any) {
	switch x := val.(type) {
	case nil:
		return
	case *string:
		if x != nil {
			v[key] = *x
		}
	case []string:
		if x != nil {
			l := make([]any, len(x))
			for i := range x {
				l[i] = x[i]
			}
			v[key] = l
		}
	default:
		v[key] = val
	}
}

func hexList(bs [][]byte) []any {
	out := make([]any, len(bs))
	for i := range bs {
		out[i] = hx(bs[i])
	}
	return out
}
