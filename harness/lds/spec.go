package lds

import (
	"fmt"
)

// Kinds lists every file kind this package knows, in a fixed order.
var Kinds = []string{"DG1", "DG2", "DG7", "DG11", "DG12", "DG13", "DG14", "DG15", "DG16", "COM", "SOD", "CardAccess", "CardSecurity"}

// FileSpec is the abstract content of one LDS file. Exactly the member named by Kind is
// used (DG14, CardAccess and CardSecurity share SecurityInfos). See doc.go.
type FileSpec struct {
	Kind string `json:"kind"`

	DG1           *DG1Spec      `json:"dg1,omitempty"`
	DG2           *DG2Spec      `json:"dg2,omitempty"`
	DG7           *DG7Spec      `json:"dg7,omitempty"`
	DG11          *DG11Spec     `json:"dg11,omitempty"`
	DG12          *DG12Spec     `json:"dg12,omitempty"`
	DG13          *DG13Spec     `json:"dg13,omitempty"`
	DG15          *DG15Spec     `json:"dg15,omitempty"`
	DG16          *DG16Spec     `json:"dg16,omitempty"`
	COM           *COMSpec      `json:"com,omitempty"`
	SOD           *SODSpec      `json:"sod,omitempty"`
	SecurityInfos *SecInfosSpec `json:"securityInfos,omitempty"`

	// Raw, when set for SOD or CardSecurity, is a complete file produced elsewhere (a really
	// signed CMS object). Encode returns it unchanged and ExpectedView is not available.
	Raw HexBytes `json:"raw,omitempty"`
}

// EncodeOpts selects among encodings of the same content that the standard allows.
type EncodeOpts struct {
	// BCDDates writes the dates of DG11 (5F2B), DG12 (5F26, 5F55) and DG16 (5F50) as packed
	// BCD (4 / 7 octets, LDS up to 1.7) instead of 8 / 14 characters.
	BCDDates bool `json:"bcdDates,omitempty"`
	// LengthForm 0: shortest length octets; 1: long form 81 xx also below 128; 2: always 82 xx xx.
	// It is applied to the data objects of the LDS templates only, never inside DER values
	// (SecurityInfos, SubjectPublicKeyInfo, SignedData, the ISO/IEC 39794-5 block).
	LengthForm int `json:"lengthForm,omitempty"`
	// Permute, when non-zero, seeds a permutation of the order in which the optional data
	// objects of DG11 / DG12 are listed in the tag list 5C and stored, of the entries of a
	// SecurityInfos SET, and of the EF.COM tag list.
	Permute int64 `json:"permute,omitempty"`
	// TagListOnly applies Permute to the tag list 5C only and stores the data objects in
	// the order of the tables of Doc 9303-10.
	TagListOnly bool `json:"tagListOnly,omitempty"`
}

// NameSpec is a name in primary / secondary identifier form. Components of an identifier
// are separated by single spaces.
type NameSpec struct {
	Primary   string `json:"primary"`
	Secondary string `json:"secondary,omitempty"`
}

// ImageSpec describes a synthetic image: a recognisable header for the format followed by
// filler up to Size octets, or literal Data.
type ImageSpec struct {
	Format string   `json:"format,omitempty"` // "jpeg" (default), "jp2" (JPEG 2000 file), "j2k" (JPEG 2000 codestream)
	Size   int      `json:"size,omitempty"`   // total length; at least the header length
	Fill   int      `json:"fill,omitempty"`   // filler seed, lets two images of one file differ
	Data   HexBytes `json:"data,omitempty"`   // if set, used as is
}

// Bytes is the image content.
func (s ImageSpec) Bytes() []byte {
	if s.Data != nil {
		return append([]byte(nil), s.Data...)
	}
	var head, tail []byte
	switch s.Format {
	case "", "jpeg":
		head = []byte{0xFF, 0xD8, 0xFF, 0xE0, 0x00, 0x10, 'J', 'F', 'I', 'F', 0x00, 0x01, 0x01, 0x00, 0x00, 0x01, 0x00, 0x01, 0x00, 0x00}
		tail = []byte{0xFF, 0xD9}
	case "jp2":
		head = []byte{0x00, 0x00, 0x00, 0x0C, 0x6A, 0x50, 0x20, 0x20, 0x0D, 0x0A, 0x87, 0x0A, 0x00, 0x00, 0x00, 0x14, 'f', 't', 'y', 'p', 'j', 'p', '2', ' '}
	case "j2k":
		head = []byte{0xFF, 0x4F, 0xFF, 0x51, 0x00, 0x29, 0x00, 0x00}
		tail = []byte{0xFF, 0xD9}
	default:
		panic(fmt.Sprintf("lds: unknown image format %q", s.Format))
	}
	n := s.Size
	if n < len(head)+len(tail) {
		n = len(head) + len(tail)
	}
	out := make([]byte, 0, n)
	out = append(out, head...)
	for i := 0; len(out) < n-len(tail); i++ {
		out = append(out, byte(s.Fill*31+i*7+1)&0x7f) // never FF: no accidental markers
	}
	return append(out, tail...)
}

// ----- DG1 -----

// DG1Spec is either a literal MRZ or the fields it is built from (check digits computed).
type DG1Spec struct {
	MRZ    string     `json:"mrz,omitempty"`
	Fields *MRZFields `json:"fields,omitempty"`
}

// ----- DG2 -----

type DG2Spec struct {
	Templates []BITSpec `json:"templates"`
}

// BITSpec is one biometric information template 7F60.
type BITSpec struct {
	Header   BHTSpec         `json:"header"`
	ISO19794 *FaceRecordSpec `json:"iso19794,omitempty"` // stored under 5F2E
	ISO39794 *Face39794Spec  `json:"iso39794,omitempty"` // stored under 7F2E
}

// BHTSpec is the biometric header template A1; nil members are absent.
type BHTSpec struct {
	ICAOHeaderVersion HexBytes `json:"icaoHeaderVersion,omitempty"` // 80
	BiometricType     HexBytes `json:"biometricType,omitempty"`     // 81
	BiometricSubType  HexBytes `json:"biometricSubType,omitempty"`  // 82
	CreationDateTime  HexBytes `json:"creationDateTime,omitempty"`  // 83
	ValidityPeriod    HexBytes `json:"validityPeriod,omitempty"`    // 85
	Creator           HexBytes `json:"pid,omitempty"`               // 86
	FormatOwner       HexBytes `json:"formatOwner,omitempty"`       // 87
	FormatType        HexBytes `json:"formatType,omitempty"`        // 88
}

// FaceRecordSpec is an ISO/IEC 19794-5:2005 face image record.
type FaceRecordSpec struct {
	Faces []FaceSpec `json:"faces"`
}

type FeaturePointSpec struct {
	Type  int `json:"type"`
	Major int `json:"majorPoint"` // 0..15
	Minor int `json:"minorPoint"` // 0..15
	X     int `json:"x"`
	Y     int `json:"y"`
}

type FaceSpec struct {
	Gender          int                `json:"gender"`
	EyeColour       int                `json:"eyeColour"`
	HairColour      int                `json:"hairColour"`
	FeatureMask     int                `json:"featureMask"`     // 24 bit
	Expression      int                `json:"expression"`      // 16 bit
	Pose            [3]int             `json:"pose"`            // yaw, pitch, roll
	PoseUncertainty [3]int             `json:"poseUncertainty"` // yaw, pitch, roll
	FeaturePoints   []FeaturePointSpec `json:"featurePoints,omitempty"`
	FaceImageType   int                `json:"faceImageType"`
	ImageDataType   int                `json:"imageDataType"` // 0 JPEG, 1 JPEG 2000
	Width           int                `json:"width"`
	Height          int                `json:"height"`
	ColourSpace     int                `json:"colourSpace"`
	SourceType      int                `json:"sourceType"`
	DeviceType      int                `json:"deviceType"`
	Quality         int                `json:"quality"`
	Image           ImageSpec          `json:"image"`
}

// Face39794Spec is an ISO/IEC 39794-5 face image data block.
type Face39794Spec struct {
	Generation      int            `json:"generation"`
	Year            int            `json:"year"`
	Representations []Rep39794Spec `json:"representations"`
}

type DateTime39794 struct {
	Year        int  `json:"year"`
	Month       *int `json:"month,omitempty"`
	Day         *int `json:"day,omitempty"`
	Hour        *int `json:"hour,omitempty"`
	Minute      *int `json:"minute,omitempty"`
	Second      *int `json:"second,omitempty"`
	Millisecond *int `json:"millisecond,omitempty"`
}

type Rep39794Spec struct {
	ID              int            `json:"representationId"`
	Image           ImageSpec      `json:"image"`
	ImageDataFormat int            `json:"imageDataFormat"` // ImageDataFormatCode
	FaceImageKind2D *int           `json:"faceImageKind2D,omitempty"`
	ImageSize       *[2]int        `json:"imageSize,omitempty"` // width, height
	ColourSpace     *int           `json:"imageColourSpace,omitempty"`
	CaptureDateTime *DateTime39794 `json:"captureDateTime,omitempty"`
	SessionID       *int           `json:"sessionId,omitempty"`
	DerivedFrom     *int           `json:"derivedFrom,omitempty"`
}

// ----- DG7 -----

type DG7Spec struct {
	Images []ImageSpec `json:"images"`
}

// ----- DG11 -----

// DG11Spec: every member is optional; nil / empty means the data object is absent.
// Dates are given as digits ("YYYYMMDD"); list members are the '<'-separated components.
type DG11Spec struct {
	NameOfHolder        *NameSpec  `json:"nameOfHolder,omitempty"`        // 5F0E
	OtherNames          []NameSpec `json:"otherNames,omitempty"`          // A0 { 02, 5F0F.. }
	PersonalNumber      *string    `json:"personalNumber,omitempty"`      // 5F10
	FullDateOfBirth     *string    `json:"fullDateOfBirth,omitempty"`     // 5F2B
	PlaceOfBirth        []string   `json:"placeOfBirth,omitempty"`        // 5F11
	Address             []string   `json:"address,omitempty"`             // 5F42
	Telephone           *string    `json:"telephone,omitempty"`           // 5F12
	Profession          *string    `json:"profession,omitempty"`          // 5F13
	Title               *string    `json:"title,omitempty"`               // 5F14
	PersonalSummary     *string    `json:"personalSummary,omitempty"`     // 5F15
	ProofOfCitizenship  *ImageSpec `json:"proofOfCitizenship,omitempty"`  // 5F16
	OtherValidTDNumbers []string   `json:"otherValidTDNumbers,omitempty"` // 5F17
	CustodyInformation  *string    `json:"custodyInformation,omitempty"`  // 5F18
}

// ----- DG12 -----

type DG12Spec struct {
	IssuingAuthority            *string    `json:"issuingAuthority,omitempty"`                  // 5F19
	DateOfIssue                 *string    `json:"dateOfIssue,omitempty"`                       // 5F26 YYYYMMDD
	OtherPersons                []NameSpec `json:"otherPersons,omitempty"`                      // A0 { 02, 5F1A.. }
	EndorsementsAndObservations *string    `json:"endorsementsAndObservations,omitempty"`       // 5F1B
	TaxExitRequirements         *string    `json:"taxExitRequirements,omitempty"`               // 5F1C
	ImageFront                  *ImageSpec `json:"imageFront,omitempty"`                        // 5F1D
	ImageRear                   *ImageSpec `json:"imageRear,omitempty"`                         // 5F1E
	DateTimeOfPersonalization   *string    `json:"dateTimeOfPersonalization,omitempty"`         // 5F55 YYYYMMDDhhmmss
	PersonalizationSystemSerial *string    `json:"personalizationSystemSerialNumber,omitempty"` // 5F56
}

// ----- DG13, DG15 -----

type DG13Spec struct {
	Content HexBytes `json:"content"`
}

// DG15Spec: a synthetic SubjectPublicKeyInfo ("rsa" with Bits modulus bits, "ec" with a
// named curve of Bits field size) or a literal one.
type DG15Spec struct {
	Alg  string   `json:"alg,omitempty"`
	Bits int      `json:"bits,omitempty"`
	Seed int      `json:"seed,omitempty"`
	SPKI HexBytes `json:"spki,omitempty"`
}

// ----- DG16 -----

type PersonSpec struct {
	DateRecorded string   `json:"dateRecorded"` // YYYYMMDD
	Name         NameSpec `json:"name"`
	Telephone    string   `json:"telephone"`
	Address      []string `json:"address"`
}

type DG16Spec struct {
	Persons []PersonSpec `json:"persons"`
}

// ----- EF.COM -----

type COMSpec struct {
	LDSVersion     string `json:"ldsVersion"`     // 4 characters aabb
	UnicodeVersion string `json:"unicodeVersion"` // 6 characters aabbcc
	Tags           []int  `json:"tags"`           // data group tags present (0x61, 0x75, ...)
}

// ----- SecurityInfos (DG14, EF.CardAccess, EF.CardSecurity) -----

type AlgIDSpec struct {
	OID    string   `json:"algorithm"`
	Params HexBytes `json:"parameters,omitempty"` // complete DER of the parameters; empty = absent
}

type SPKISpec struct {
	Alg        AlgIDSpec `json:"algorithm"`
	Key        HexBytes  `json:"subjectPublicKey"`
	UnusedBits int       `json:"unusedBits,omitempty"`
}

type FileIDSpec struct {
	FID  HexBytes `json:"fid"`
	SFID HexBytes `json:"sfid,omitempty"`
}

// SecInfoSpec is one SecurityInfo. Type selects the ASN.1 type:
// "pace", "paceDomain", "chipAuth", "chipAuthPublicKey", "activeAuth", "terminalAuth",
// "efDir", "unknown".
type SecInfoSpec struct {
	Type               string      `json:"type"`
	OID                string      `json:"protocol"`
	Version            int         `json:"version,omitempty"`
	ParameterID        *int64      `json:"parameterId,omitempty"`
	KeyID              *int64      `json:"keyId,omitempty"`
	SignatureAlgorithm string      `json:"signatureAlgorithm,omitempty"`
	DomainParameter    *AlgIDSpec  `json:"domainParameter,omitempty"`
	PublicKey          *SPKISpec   `json:"chipAuthenticationPublicKey,omitempty"`
	EFCVCA             *FileIDSpec `json:"efCVCA,omitempty"`
	EFDir              HexBytes    `json:"efDir,omitempty"`
	Body               HexBytes    `json:"body,omitempty"` // unknown: DER of requiredData [optionalData]
}

type SecInfosSpec struct {
	Infos []SecInfoSpec `json:"infos"`
}

// ----- EF.SOD -----

type DGHashSpec struct {
	DG   int      `json:"dataGroupNumber"`
	Hash HexBytes `json:"dataGroupHashValue"`
}

// SODSpec is the LDSSecurityObject carried by EF.SOD. Encode wraps it in a structurally
// valid but unsigned SignedData (no certificates, no signer infos): enough for view checks,
// useless for passive authentication. Signed objects come from package pki via FileSpec.Raw.
type SODSpec struct {
	EContentType   string       `json:"eContentType,omitempty"` // default 2.23.136.1.1.1
	Version        int          `json:"version"`
	HashAlgorithm  AlgIDSpec    `json:"hashAlgorithm"`
	Hashes         []DGHashSpec `json:"dataGroupHashValues"`
	LDSVersion     *string      `json:"ldsVersion,omitempty"` // both or neither
	UnicodeVersion *string      `json:"unicodeVersion,omitempty"`
}

// ---------------------------------------------------------------------------------------

// KindTag is the outer tag of a file kind (0x31 SET for CardAccess, 0x30 SEQUENCE for
// CardSecurity, which have no LDS template around them).
func KindTag(kind string) (uint32, bool) {
	switch kind {
	case "COM":
		return 0x60, true
	case "SOD":
		return 0x77, true
	case "CardAccess":
		return 0x31, true
	case "CardSecurity":
		return 0x30, true
	}
	if n := KindDG(kind); n > 0 {
		return DGTag(n), true
	}
	return 0, false
}

// KindDG is the data group number of a kind, 0 for files that are not data groups.
func KindDG(kind string) int {
	var n int
	if _, err := fmt.Sscanf(kind, "DG%d", &n); err == nil && n >= 1 && n <= 16 && fmt.Sprintf("DG%d", n) == kind {
		return n
	}
	return 0
}

// DGTag is the template tag of data group n (Doc 9303-10 table of EF identifiers and tags).
func DGTag(n int) uint32 {
	return [...]uint32{0, 0x61, 0x75, 0x63, 0x76, 0x65, 0x66, 0x67, 0x68, 0x69, 0x6A, 0x6B, 0x6C, 0x6D, 0x6E, 0x6F, 0x70}[n]
}

func sp(s string) *string { return &s }
func ip(i int) *int       { return &i }
func i64p(i int64) *int64 { return &i }
