package lds

import (
	"fmt"
	"math/rand"
	"strings"
)

// Encode produces the bytes of a well-formed file with the content described by spec.
func Encode(spec FileSpec, opts EncodeOpts) ([]byte, error) {
	lf := opts.LengthForm
	switch spec.Kind {
	case "DG1":
		if spec.DG1 == nil {
			return nil, errMissing(spec.Kind)
		}
		m, err := spec.DG1.mrz()
		if err != nil {
			return nil, err
		}
		return tlvF(lf, 0x61, tlvF(lf, 0x5F1F, []byte(m))), nil
	case "DG2":
		if spec.DG2 == nil {
			return nil, errMissing(spec.Kind)
		}
		return encodeDG2(spec.DG2, opts)
	case "DG7":
		if spec.DG7 == nil {
			return nil, errMissing(spec.Kind)
		}
		n := len(spec.DG7.Images)
		if n < 1 || n > 9 {
			return nil, fmt.Errorf("lds: DG7 needs 1..9 images")
		}
		body := tlvF(lf, 0x02, []byte{byte(n)})
		for _, im := range spec.DG7.Images {
			body = append(body, tlvF(lf, 0x5F43, im.Bytes())...)
		}
		return tlvF(lf, 0x67, body), nil
	case "DG11":
		if spec.DG11 == nil {
			return nil, errMissing(spec.Kind)
		}
		return encodeTagListed(0x6B, spec.DG11.elements(opts), opts), nil
	case "DG12":
		if spec.DG12 == nil {
			return nil, errMissing(spec.Kind)
		}
		return encodeTagListed(0x6C, spec.DG12.elements(opts), opts), nil
	case "DG13":
		if spec.DG13 == nil {
			return nil, errMissing(spec.Kind)
		}
		return tlvF(lf, 0x6D, spec.DG13.Content), nil
	case "DG14":
		if spec.SecurityInfos == nil {
			return nil, errMissing(spec.Kind)
		}
		si, err := encodeSecurityInfos(spec.SecurityInfos, opts)
		if err != nil {
			return nil, err
		}
		return tlvF(lf, 0x6E, si), nil
	case "DG15":
		if spec.DG15 == nil {
			return nil, errMissing(spec.Kind)
		}
		return tlvF(lf, 0x6F, spec.DG15.spki()), nil
	case "DG16":
		if spec.DG16 == nil {
			return nil, errMissing(spec.Kind)
		}
		n := len(spec.DG16.Persons)
		if n < 1 || n > 15 {
			return nil, fmt.Errorf("lds: DG16 needs 1..15 persons")
		}
		body := tlvF(lf, 0x02, []byte{byte(n)})
		for i, p := range spec.DG16.Persons {
			body = append(body, tlvF(lf, uint32(0xA1+i),
				tlvF(lf, 0x5F50, encodeDate(p.DateRecorded, opts.BCDDates)),
				tlvF(lf, 0x5F51, []byte(nameText(p.Name))),
				tlvF(lf, 0x5F52, []byte(p.Telephone)),
				tlvF(lf, 0x5F53, []byte(strings.Join(p.Address, "<"))))...)
		}
		return tlvF(lf, 0x70, body), nil
	case "COM":
		if spec.COM == nil {
			return nil, errMissing(spec.Kind)
		}
		c := spec.COM
		if len(c.LDSVersion) != 4 || len(c.UnicodeVersion) != 6 {
			return nil, fmt.Errorf("lds: EF.COM versions must have 4 and 6 characters")
		}
		tags := append([]int(nil), c.Tags...)
		if opts.Permute != 0 {
			rand.New(rand.NewSource(opts.Permute)).Shuffle(len(tags), func(i, j int) { tags[i], tags[j] = tags[j], tags[i] })
		}
		var tl []byte
		for _, t := range tags {
			tl = append(tl, tagBytes(uint32(t))...)
		}
		return tlvF(lf, 0x60,
			tlvF(lf, 0x5F01, []byte(c.LDSVersion)),
			tlvF(lf, 0x5F36, []byte(c.UnicodeVersion)),
			tlvF(lf, 0x5C, tl)), nil
	case "CardAccess":
		if spec.SecurityInfos == nil {
			return nil, errMissing(spec.Kind)
		}
		return encodeSecurityInfos(spec.SecurityInfos, opts)
	case "CardSecurity":
		if spec.Raw != nil {
			return append([]byte(nil), spec.Raw...), nil
		}
		if spec.SecurityInfos == nil {
			return nil, errMissing(spec.Kind)
		}
		si, err := encodeSecurityInfos(spec.SecurityInfos, opts)
		if err != nil {
			return nil, err
		}
		return WrapUnsignedSignedData(OIDSecurityObject, si, "2.16.840.1.101.3.4.2.1"), nil
	case "SOD":
		if spec.Raw != nil {
			return append([]byte(nil), spec.Raw...), nil
		}
		if spec.SOD == nil {
			return nil, errMissing(spec.Kind)
		}
		ec, err := EncodeLDSSecurityObject(spec.SOD)
		if err != nil {
			return nil, err
		}
		ct := spec.SOD.EContentType
		if ct == "" {
			ct = OIDLDSSecurityObject
		}
		return tlvF(lf, 0x77, WrapUnsignedSignedData(ct, ec, spec.SOD.HashAlgorithm.OID)), nil
	}
	return nil, fmt.Errorf("lds: unknown kind %q", spec.Kind)
}

func errMissing(kind string) error {
	return fmt.Errorf("lds: FileSpec of kind %s has no content", kind)
}

// ExpectedView is the view of the file computed from the spec alone (no bytes involved).
func ExpectedView(spec FileSpec) (View, error) {
	switch spec.Kind {
	case "DG1":
		if spec.DG1 == nil {
			return nil, errMissing(spec.Kind)
		}
		m, err := spec.DG1.mrz()
		if err != nil {
			return nil, err
		}
		var v View
		if spec.DG1.Fields != nil {
			v = mrzFieldsView(*spec.DG1.Fields)
		} else if v, err = DecodeMRZ(m); err != nil {
			return nil, err
		}
		v["mrz"] = m
		return v, nil
	case "DG2":
		return expectedDG2(spec.DG2)
	case "DG7":
		var imgs [][]byte
		for _, im := range spec.DG7.Images {
			imgs = append(imgs, im.Bytes())
		}
		return View{"images": hexList(imgs)}, nil
	case "DG11":
		d := spec.DG11
		v := View{}
		if d.NameOfHolder != nil {
			v["nameOfHolder"] = nameView(*d.NameOfHolder)
		}
		if len(d.OtherNames) > 0 {
			v["otherNames"] = nameViews(d.OtherNames)
		}
		put(v, "personalNumber", d.PersonalNumber)
		put(v, "fullDateOfBirth", d.FullDateOfBirth)
		put(v, "placeOfBirth", d.PlaceOfBirth)
		put(v, "address", d.Address)
		put(v, "telephone", d.Telephone)
		put(v, "profession", d.Profession)
		put(v, "title", d.Title)
		put(v, "personalSummary", d.PersonalSummary)
		if d.ProofOfCitizenship != nil {
			v["proofOfCitizenship"] = hx(d.ProofOfCitizenship.Bytes())
		}
		put(v, "otherValidTDNumbers", d.OtherValidTDNumbers)
		put(v, "custodyInformation", d.CustodyInformation)
		return v, nil
	case "DG12":
		d := spec.DG12
		v := View{}
		put(v, "issuingAuthority", d.IssuingAuthority)
		put(v, "dateOfIssue", d.DateOfIssue)
		if len(d.OtherPersons) > 0 {
			v["otherPersons"] = nameViews(d.OtherPersons)
		}
		put(v, "endorsementsAndObservations", d.EndorsementsAndObservations)
		put(v, "taxExitRequirements", d.TaxExitRequirements)
		if d.ImageFront != nil {
			v["imageFront"] = hx(d.ImageFront.Bytes())
		}
		if d.ImageRear != nil {
			v["imageRear"] = hx(d.ImageRear.Bytes())
		}
		put(v, "dateTimeOfPersonalization", d.DateTimeOfPersonalization)
		put(v, "personalizationSystemSerialNumber", d.PersonalizationSystemSerial)
		return v, nil
	case "DG13":
		return View{"content": hx(spec.DG13.Content)}, nil
	case "DG14", "CardAccess":
		return View{"securityInfos": expectedSecurityInfos(spec.SecurityInfos)}, nil
	case "CardSecurity":
		if spec.Raw != nil {
			return nil, fmt.Errorf("lds: no expected view for raw CardSecurity")
		}
		return View{"eContentType": OIDSecurityObject, "securityInfos": expectedSecurityInfos(spec.SecurityInfos)}, nil
	case "DG15":
		return View{"subjectPublicKeyInfo": hx(spec.DG15.spki())}, nil
	case "DG16":
		var ps []any
		for _, p := range spec.DG16.Persons {
			pv := View{"dateRecorded": p.DateRecorded, "name": nameView(p.Name), "telephone": p.Telephone}
			addr := append([]string{}, p.Address...)
			if len(addr) == 0 {
				addr = []string{""} // an empty value is one empty component
			}
			put(pv, "address", addr)
			ps = append(ps, pv)
		}
		return View{"personsToNotify": ps}, nil
	case "COM":
		tl := make([]any, len(spec.COM.Tags))
		for i, t := range spec.COM.Tags {
			tl[i] = t
		}
		return View{"ldsVersion": spec.COM.LDSVersion, "unicodeVersion": spec.COM.UnicodeVersion, "tagList": sortedNums(tl)}, nil
	case "SOD":
		if spec.Raw != nil {
			return nil, fmt.Errorf("lds: no expected view for raw SOD")
		}
		return expectedSOD(spec.SOD), nil
	}
	return nil, fmt.Errorf("lds: unknown kind %q", spec.Kind)
}

// Decode is the reference reading of the raw bytes of a file of the given kind. It fails
// when the outer tag is not the one of the kind or the file is not well formed.
func Decode(kind string, raw []byte) (View, error) {
	switch kind {
	case "DG1":
		root, err := readOne(raw, 0x61)
		if err != nil {
			return nil, err
		}
		m, err := readOne(root.val, 0x5F1F)
		if err != nil {
			return nil, err
		}
		v, err := DecodeMRZ(string(m.val))
		if err != nil {
			return nil, err
		}
		v["mrz"] = string(m.val)
		return v, nil
	case "DG2":
		return decodeDG2(raw)
	case "DG7":
		root, err := readOne(raw, 0x67)
		if err != nil {
			return nil, err
		}
		imgs, err := countedList(root.val, 0x5F43, 1, 9)
		if err != nil {
			return nil, err
		}
		for _, im := range imgs {
			if !looksLikeImage(im) {
				return nil, fmt.Errorf("lds: DG7 element is neither JPEG nor JPEG 2000")
			}
		}
		return View{"images": hexList(imgs)}, nil
	case "DG11":
		return decodeDG11(raw)
	case "DG12":
		return decodeDG12(raw)
	case "DG13":
		root, err := readOne(raw, 0x6D)
		if err != nil {
			return nil, err
		}
		return View{"content": hx(root.val)}, nil
	case "DG14":
		root, err := readOne(raw, 0x6E)
		if err != nil {
			return nil, err
		}
		si, err := DecodeSecurityInfos(root.val)
		if err != nil {
			return nil, err
		}
		return View{"securityInfos": si}, nil
	case "CardAccess":
		si, err := DecodeSecurityInfos(raw)
		if err != nil {
			return nil, err
		}
		return View{"securityInfos": si}, nil
	case "CardSecurity":
		ct, ec, err := ExtractEContent(raw)
		if err != nil {
			return nil, err
		}
		if ct != OIDSecurityObject {
			return nil, fmt.Errorf("lds: EF.CardSecurity eContentType is %s", ct)
		}
		si, err := DecodeSecurityInfos(ec)
		if err != nil {
			return nil, err
		}
		return View{"eContentType": ct, "securityInfos": si}, nil
	case "DG15":
		root, err := readOne(raw, 0x6F)
		if err != nil {
			return nil, err
		}
		if err := checkSPKI(root.val); err != nil {
			return nil, err
		}
		return View{"subjectPublicKeyInfo": hx(root.val)}, nil
	case "DG16":
		return decodeDG16(raw)
	case "COM":
		root, err := readOne(raw, 0x60)
		if err != nil {
			return nil, err
		}
		items, err := readAll(root.val)
		if err != nil {
			return nil, err
		}
		v := View{}
		for _, it := range items {
			var key string
			switch it.tag {
			case 0x5F01:
				key = "ldsVersion"
				if len(it.val) != 4 {
					return nil, fmt.Errorf("lds: LDS version must have 4 characters")
				}
				v[key] = string(it.val)
			case 0x5F36:
				key = "unicodeVersion"
				if len(it.val) != 6 {
					return nil, fmt.Errorf("lds: Unicode version must have 6 characters")
				}
				v[key] = string(it.val)
			case 0x5C:
				key = "tagList"
				tags, err := parseTagList(it.val)
				if err != nil {
					return nil, err
				}
				l := make([]any, len(tags))
				for i, t := range tags {
					l[i] = int(t)
				}
				v[key] = sortedNums(l)
			default:
				return nil, fmt.Errorf("lds: unexpected data object %X in EF.COM", it.tag)
			}
		}
		if len(v) != 3 || len(items) != 3 {
			return nil, fmt.Errorf("lds: EF.COM must hold 5F01, 5F36 and 5C exactly once")
		}
		return v, nil
	case "SOD":
		return decodeSOD(raw)
	}
	return nil, fmt.Errorf("lds: unknown kind %q", kind)
}

// sortedNums: the EF.COM tag list is a set (its order carries no meaning); the view holds it
// in ascending order.
func sortedNums(l []any) []any {
	out := append([]any(nil), l...)
	for i := 1; i < len(out); i++ {
		for j := i; j > 0 && out[j].(int) < out[j-1].(int); j-- {
			out[j], out[j-1] = out[j-1], out[j]
		}
	}
	return out
}

func (d *DG1Spec) mrz() (string, error) {
	if d.Fields != nil {
		return BuildMRZ(*d.Fields)
	}
	if n := len(d.MRZ); n != 88 && n != 72 && n != 90 {
		return "", fmt.Errorf("lds: MRZ of %d characters", n)
	}
	return d.MRZ, nil
}

func nameViews(ns []NameSpec) []any {
	out := make([]any, len(ns))
	for i := range ns {
		out[i] = nameView(ns[i])
	}
	return out
}

func looksLikeImage(b []byte) bool {
	has := func(p ...byte) bool { return len(b) >= len(p) && string(b[:len(p)]) == string(p) }
	return has(0xFF, 0xD8, 0xFF) || has(0xFF, 0x4F, 0xFF, 0x51) || has(0x00, 0x00, 0x00, 0x0C, 0x6A, 0x50, 0x20, 0x20, 0x0D, 0x0A, 0x87, 0x0A)
}

// encodeDate writes a numeric date ("YYYYMMDD" or "YYYYMMDDhhmmss") as characters or as
// packed BCD.
func encodeDate(digits string, bcd bool) []byte {
	if !bcd {
		return []byte(digits)
	}
	out := make([]byte, len(digits)/2)
	for i := range out {
		out[i] = (digits[2*i]-'0')<<4 | (digits[2*i+1] - '0')
	}
	return out
}

// decodeDate accepts n characters or n/2 octets of packed BCD.
func decodeDate(b []byte, n int) (string, error) {
	switch len(b) {
	case n:
		for _, c := range b {
			if c < '0' || c > '9' {
				return "", fmt.Errorf("lds: date %q is not numeric", b)
			}
		}
		return string(b), nil
	case n / 2:
		var sb strings.Builder
		for _, c := range b {
			if c>>4 > 9 || c&0xf > 9 {
				return "", fmt.Errorf("lds: date %x is not BCD", b)
			}
			sb.WriteByte('0' + c>>4)
			sb.WriteByte('0' + c&0xf)
		}
		return sb.String(), nil
	}
	return "", fmt.Errorf("lds: date of %d octets (expected %d or %d)", len(b), n, n/2)
}

// countedList reads "02 01 n" followed by exactly n data objects with the given tag.
func countedList(b []byte, tag uint32, min, max int) ([][]byte, error) {
	items, err := readAll(b)
	if err != nil {
		return nil, err
	}
	if len(items) == 0 || items[0].tag != 0x02 || len(items[0].val) != 1 {
		return nil, fmt.Errorf("lds: count (02 01 n) missing in front of %X", tag)
	}
	n := int(items[0].val[0])
	if n < min || n > max {
		return nil, fmt.Errorf("lds: count %d outside %d..%d", n, min, max)
	}
	var out [][]byte
	for _, it := range items[1:] {
		if it.tag != tag {
			return nil, fmt.Errorf("lds: unexpected data object %X among the %X", it.tag, tag)
		}
		out = append(out, it.val)
	}
	if len(out) != n {
		return nil, fmt.Errorf("lds: count says %d, found %d data objects %X", n, len(out), tag)
	}
	return out, nil
}

// ----- tag-list driven templates (DG11, DG12) -----

// element is one optional data object of DG11/DG12: listTag goes in the tag list 5C, enc is
// what is stored (for the repeated names: A0 { 02 n, tag.. }).
type element struct {
	listTag uint32
	enc     []byte
}

func encodeTagListed(outer uint32, els []element, opts EncodeOpts) []byte {
	lf := opts.LengthForm
	order := make([]int, len(els))
	for i := range order {
		order[i] = i
	}
	if opts.Permute != 0 {
		rand.New(rand.NewSource(opts.Permute)).Shuffle(len(order), func(i, j int) { order[i], order[j] = order[j], order[i] })
	}
	var tl, body []byte
	for _, i := range order {
		tl = append(tl, tagBytes(els[i].listTag)...)
	}
	if opts.TagListOnly {
		for i := range els {
			body = append(body, els[i].enc...)
		}
	} else {
		for _, i := range order {
			body = append(body, els[i].enc...)
		}
	}
	return tlvF(lf, outer, tlvF(lf, 0x5C, tl), body)
}

func namesBlock(lf int, tag uint32, names []NameSpec) []byte {
	body := tlvF(lf, 0x02, []byte{byte(len(names))})
	for _, n := range names {
		body = append(body, tlvF(lf, tag, []byte(nameText(n)))...)
	}
	return tlvF(lf, 0xA0, body)
}

func (d *DG11Spec) elements(opts EncodeOpts) []element {
	lf := opts.LengthForm
	var els []element
	add := func(tag uint32, val []byte) { els = append(els, element{tag, tlvF(lf, tag, val)}) }
	str := func(tag uint32, s *string) {
		if s != nil {
			add(tag, []byte(*s))
		}
	}
	list := func(tag uint32, l []string) {
		if l != nil {
			add(tag, []byte(strings.Join(l, "<")))
		}
	}
	if d.NameOfHolder != nil {
		add(0x5F0E, []byte(nameText(*d.NameOfHolder)))
	}
	if len(d.OtherNames) > 0 {
		els = append(els, element{0x5F0F, namesBlock(lf, 0x5F0F, d.OtherNames)})
	}
	str(0x5F10, d.PersonalNumber)
	if d.FullDateOfBirth != nil {
		add(0x5F2B, encodeDate(*d.FullDateOfBirth, opts.BCDDates))
	}
	list(0x5F11, d.PlaceOfBirth)
	list(0x5F42, d.Address)
	str(0x5F12, d.Telephone)
	str(0x5F13, d.Profession)
	str(0x5F14, d.Title)
	str(0x5F15, d.PersonalSummary)
	if d.ProofOfCitizenship != nil {
		add(0x5F16, d.ProofOfCitizenship.Bytes())
	}
	list(0x5F17, d.OtherValidTDNumbers)
	str(0x5F18, d.CustodyInformation)
	return els
}

func (d *DG12Spec) elements(opts EncodeOpts) []element {
	lf := opts.LengthForm
	var els []element
	add := func(tag uint32, val []byte) { els = append(els, element{tag, tlvF(lf, tag, val)}) }
	str := func(tag uint32, s *string) {
		if s != nil {
			add(tag, []byte(*s))
		}
	}
	str(0x5F19, d.IssuingAuthority)
	if d.DateOfIssue != nil {
		add(0x5F26, encodeDate(*d.DateOfIssue, opts.BCDDates))
	}
	if len(d.OtherPersons) > 0 {
		els = append(els, element{0x5F1A, namesBlock(lf, 0x5F1A, d.OtherPersons)})
	}
	str(0x5F1B, d.EndorsementsAndObservations)
	str(0x5F1C, d.TaxExitRequirements)
	if d.ImageFront != nil {
		add(0x5F1D, d.ImageFront.Bytes())
	}
	if d.ImageRear != nil {
		add(0x5F1E, d.ImageRear.Bytes())
	}
	if d.DateTimeOfPersonalization != nil {
		add(0x5F55, encodeDate(*d.DateTimeOfPersonalization, opts.BCDDates))
	}
	str(0x5F56, d.PersonalizationSystemSerial)
	return els
}

// readTagListed splits a DG11/DG12 template into its tag list and its data objects, and
// checks that the two agree: every listed tag is stored exactly once and nothing else is
// stored. The repeated names live in A0 and are listed under nameTag.
func readTagListed(raw []byte, outer, nameTag uint32) (map[uint32][]byte, [][]byte, error) {
	root, err := readOne(raw, outer)
	if err != nil {
		return nil, nil, err
	}
	items, err := readAll(root.val)
	if err != nil {
		return nil, nil, err
	}
	if len(items) == 0 || items[0].tag != 0x5C {
		return nil, nil, fmt.Errorf("lds: tag list 5C must come first in %X", outer)
	}
	listed, err := parseTagList(items[0].val)
	if err != nil {
		return nil, nil, err
	}
	stored := map[uint32][]byte{}
	var names [][]byte
	hasNames := false
	for _, it := range items[1:] {
		t := it.tag
		if t == 0xA0 {
			t = nameTag
			hasNames = true
			if names, err = countedList(it.val, nameTag, 1, 99); err != nil {
				return nil, nil, err
			}
		}
		if _, dup := stored[t]; dup {
			return nil, nil, fmt.Errorf("lds: data object %X stored twice", it.tag)
		}
		stored[t] = it.val
	}
	seen := map[uint32]bool{}
	for _, t := range listed {
		if seen[t] {
			return nil, nil, fmt.Errorf("lds: tag %X listed twice", t)
		}
		seen[t] = true
		if _, ok := stored[t]; !ok {
			return nil, nil, fmt.Errorf("lds: tag %X listed in 5C but not stored", t)
		}
	}
	for t := range stored {
		if !seen[t] {
			return nil, nil, fmt.Errorf("lds: data object %X stored but not listed in 5C", t)
		}
	}
	if !hasNames {
		names = nil
	}
	return stored, names, nil
}

func namesFromFields(fields [][]byte) ([]any, error) {
	var out []any
	for _, f := range fields {
		nv, err := parseNameField(string(f))
		if err != nil {
			return nil, err
		}
		out = append(out, nv)
	}
	return out, nil
}

func splitList(b []byte) []any {
	parts := strings.Split(string(b), "<")
	out := make([]any, len(parts))
	for i := range parts {
		out[i] = parts[i]
	}
	return out
}

func decodeDG11(raw []byte) (View, error) {
	stored, names, err := readTagListed(raw, 0x6B, 0x5F0F)
	if err != nil {
		return nil, err
	}
	v := View{}
	for t, val := range stored {
		switch t {
		case 0x5F0E:
			nv, err := parseNameField(string(val))
			if err != nil {
				return nil, err
			}
			v["nameOfHolder"] = nv
		case 0x5F0F:
			l, err := namesFromFields(names)
			if err != nil {
				return nil, err
			}
			v["otherNames"] = l
		case 0x5F10:
			v["personalNumber"] = string(val)
		case 0x5F2B:
			d, err := decodeDate(val, 8)
			if err != nil {
				return nil, err
			}
			v["fullDateOfBirth"] = d
		case 0x5F11:
			v["placeOfBirth"] = splitList(val)
		case 0x5F42:
			v["address"] = splitList(val)
		case 0x5F12:
			v["telephone"] = string(val)
		case 0x5F13:
			v["profession"] = string(val)
		case 0x5F14:
			v["title"] = string(val)
		case 0x5F15:
			v["personalSummary"] = string(val)
		case 0x5F16:
			v["proofOfCitizenship"] = hx(val)
		case 0x5F17:
			v["otherValidTDNumbers"] = splitList(val)
		case 0x5F18:
			v["custodyInformation"] = string(val)
		default:
			return nil, fmt.Errorf("lds: data object %X does not belong to DG11", t)
		}
	}
	return v, nil
}

func decodeDG12(raw []byte) (View, error) {
	stored, names, err := readTagListed(raw, 0x6C, 0x5F1A)
	if err != nil {
		return nil, err
	}
	v := View{}
	for t, val := range stored {
		switch t {
		case 0x5F19:
			v["issuingAuthority"] = string(val)
		case 0x5F26:
			d, err := decodeDate(val, 8)
			if err != nil {
				return nil, err
			}
			v["dateOfIssue"] = d
		case 0x5F1A:
			l, err := namesFromFields(names)
			if err != nil {
				return nil, err
			}
			v["otherPersons"] = l
		case 0x5F1B:
			v["endorsementsAndObservations"] = string(val)
		case 0x5F1C:
			v["taxExitRequirements"] = string(val)
		case 0x5F1D:
			v["imageFront"] = hx(val)
		case 0x5F1E:
			v["imageRear"] = hx(val)
		case 0x5F55:
			d, err := decodeDate(val, 14)
			if err != nil {
				return nil, err
			}
			v["dateTimeOfPersonalization"] = d
		case 0x5F56:
			v["personalizationSystemSerialNumber"] = string(val)
		default:
			return nil, fmt.Errorf("lds: data object %X does not belong to DG12", t)
		}
	}
	return v, nil
}

func decodeDG16(raw []byte) (View, error) {
	root, err := readOne(raw, 0x70)
	if err != nil {
		return nil, err
	}
	items, err := readAll(root.val)
	if err != nil {
		return nil, err
	}
	if len(items) == 0 || items[0].tag != 0x02 || len(items[0].val) != 1 {
		return nil, fmt.Errorf("lds: DG16 count missing")
	}
	n := int(items[0].val[0])
	if n < 1 || n != len(items)-1 {
		return nil, fmt.Errorf("lds: DG16 count says %d, %d templates stored", n, len(items)-1)
	}
	var persons []any
	for i, it := range items[1:] {
		if it.tag != uint32(0xA1+i) {
			return nil, fmt.Errorf("lds: DG16 template %d has tag %X", i+1, it.tag)
		}
		fs, err := readAll(it.val)
		if err != nil {
			return nil, err
		}
		p := View{}
		for _, f := range fs {
			var key string
			var val any
			switch f.tag {
			case 0x5F50:
				key = "dateRecorded"
				if val, err = decodeDate(f.val, 8); err != nil {
					return nil, err
				}
			case 0x5F51:
				key = "name"
				if val, err = parseNameField(string(f.val)); err != nil {
					return nil, err
				}
			case 0x5F52:
				key, val = "telephone", string(f.val)
			case 0x5F53:
				key, val = "address", splitList(f.val)
			default:
				return nil, fmt.Errorf("lds: data object %X does not belong to DG16", f.tag)
			}
			if _, dup := p[key]; dup {
				return nil, fmt.Errorf("lds: DG16 %s stored twice", key)
			}
			p[key] = val
		}
		persons = append(persons, p)
	}
	return View{"personsToNotify": persons}, nil
}
