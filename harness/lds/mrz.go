package lds

import (
	"fmt"
	"strings"
)

// MRZFields are the data elements of a machine readable zone (Doc 9303-4/-5/-6). Values are
// given in "visual" form: spaces where the MRZ has a filler between components.
type MRZFields struct {
	Format         string `json:"format"`       // "TD1", "TD2", "TD3"
	DocumentCode   string `json:"documentCode"` // 1 or 2 characters
	IssuingState   string `json:"issuingState"` // up to 3
	Primary        string `json:"primary"`
	Secondary      string `json:"secondary,omitempty"`
	DocumentNumber string `json:"documentNumber"` // longer than 9: continued in the optional data (TD1, TD2)
	Nationality    string `json:"nationality"`
	DateOfBirth    string `json:"dateOfBirth"` // YYMMDD
	Sex            string `json:"sex"`         // "M", "F" or "" (unspecified, written '<')
	DateOfExpiry   string `json:"dateOfExpiry"`
	OptionalData   string `json:"optionalData,omitempty"`
	OptionalData2  string `json:"optionalData2,omitempty"` // TD1 only
	// EmptyOptionalCheckDigitZero: TD3 only; the check digit of an empty personal number is
	// written '0' instead of '<' (both allowed by Doc 9303-4).
	EmptyOptionalCheckDigitZero bool `json:"emptyOptionalCheckDigitZero,omitempty"`
}

func mrzCharValue(c byte) (int, bool) {
	switch {
	case c >= '0' && c <= '9':
		return int(c - '0'), true
	case c >= 'A' && c <= 'Z':
		return int(c-'A') + 10, true
	case c == '<':
		return 0, true
	}
	return 0, false
}

// mrzCheckDigit is the 7-3-1 modulus 10 check digit of Doc 9303-3 §4.9.
func mrzCheckDigit(s string) (byte, error) {
	w := [3]int{7, 3, 1}
	sum := 0
	for i := 0; i < len(s); i++ {
		v, ok := mrzCharValue(s[i])
		if !ok {
			return 0, fmt.Errorf("lds: character %q is not allowed in an MRZ", s[i])
		}
		sum += v * w[i%3]
	}
	return byte('0' + sum%10), nil
}

func mrzPad(s string, n int) (string, error) {
	s = strings.ReplaceAll(strings.ToUpper(s), " ", "<")
	if len(s) > n {
		return "", fmt.Errorf("lds: MRZ field %q longer than %d", s, n)
	}
	return s + strings.Repeat("<", n-len(s)), nil
}

func mrzName(primary, secondary string, n int) (string, error) {
	s := primary
	if secondary != "" {
		s += "  " + secondary
	}
	return mrzPad(s, n)
}

// BuildMRZ writes the MRZ for the fields, computing all check digits.
func BuildMRZ(f MRZFields) (string, error) {
	var err error
	pad := func(s string, n int) string {
		if err != nil {
			return ""
		}
		var out string
		out, err = mrzPad(s, n)
		return out
	}
	cd := func(s string) string {
		if err != nil {
			return ""
		}
		var c byte
		c, err = mrzCheckDigit(s)
		return string(c)
	}
	code := pad(f.DocumentCode, 2)
	state := pad(f.IssuingState, 3)
	nat := pad(f.Nationality, 3)
	dob := pad(f.DateOfBirth, 6)
	exp := pad(f.DateOfExpiry, 6)
	sex := pad(f.Sex, 1)
	if err != nil {
		return "", err
	}
	docno := strings.ReplaceAll(strings.ToUpper(f.DocumentNumber), " ", "<")

	// document number field (9) + check digit + what goes in front of the optional data
	docField := func(optLen int, optional string) (string, string, error) {
		if len(docno) <= 9 {
			d, e := mrzPad(docno, 9)
			if e != nil {
				return "", "", e
			}
			c, e := mrzCheckDigit(d)
			if e != nil {
				return "", "", e
			}
			o, e := mrzPad(optional, optLen)
			return d + string(c), o, e
		}
		// Doc 9303-5 §4.2.2 note j / 9303-6: nine principal characters, '<' in the check digit
		// position, remaining characters, check digit and a filler at the start of the optional data.
		c, e := mrzCheckDigit(docno)
		if e != nil {
			return "", "", e
		}
		o, e := mrzPad(docno[9:]+string(c)+" "+optional, optLen)
		return docno[:9] + "<", o, e
	}

	switch f.Format {
	case "TD3":
		name, e := mrzName(f.Primary, f.Secondary, 39)
		if e != nil {
			return "", e
		}
		if len(docno) > 9 {
			return "", fmt.Errorf("lds: TD3 document number longer than 9")
		}
		d := pad(docno, 9)
		opt := pad(f.OptionalData, 14)
		if err != nil {
			return "", err
		}
		optCD := cd(opt)
		if strings.Trim(opt, "<") == "" && !f.EmptyOptionalCheckDigitZero {
			optCD = "<"
		}
		l2 := d + cd(d) + nat + dob + cd(dob) + sex + exp + cd(exp) + opt + optCD
		comp := cd(l2[0:10] + l2[13:20] + l2[21:43])
		if err != nil {
			return "", err
		}
		return code + state + name + l2 + comp, nil
	case "TD2":
		name, e := mrzName(f.Primary, f.Secondary, 31)
		if e != nil {
			return "", e
		}
		dn, opt, e := docField(7, f.OptionalData)
		if e != nil {
			return "", e
		}
		l2 := dn + nat + dob + cd(dob) + sex + exp + cd(exp) + opt
		comp := cd(l2[0:10] + l2[13:20] + l2[21:35])
		if err != nil {
			return "", err
		}
		return code + state + name + l2 + comp, nil
	case "TD1":
		name, e := mrzName(f.Primary, f.Secondary, 30)
		if e != nil {
			return "", e
		}
		dn, opt, e := docField(15, f.OptionalData)
		if e != nil {
			return "", e
		}
		opt2 := pad(f.OptionalData2, 11)
		l1 := code + state + dn + opt
		l2 := dob + cd(dob) + sex + exp + cd(exp) + nat + opt2
		comp := cd(l1[5:30] + l2[0:7] + l2[8:15] + l2[18:29])
		if err != nil {
			return "", err
		}
		return l1 + l2 + comp + name, nil
	}
	return "", fmt.Errorf("lds: unknown MRZ format %q", f.Format)
}

// mrzText turns a fixed-length MRZ field into its visual form: trailing fillers removed,
// inner fillers read as spaces.
func mrzText(s string) string {
	return strings.ReplaceAll(strings.TrimRight(s, "<"), "<", " ")
}

// parseNameField reads "PRIMARY<<SECONDARY" (components separated by single fillers).
func parseNameField(s string) (View, error) {
	s = strings.TrimRight(s, "<")
	prim, sec := s, ""
	if i := strings.Index(s, "<<"); i >= 0 {
		prim, sec = s[:i], s[i+2:]
		if strings.Contains(sec, "<<") {
			return nil, fmt.Errorf("lds: more than one '<<' in name %q", s)
		}
	}
	v := View{"primary": strings.ReplaceAll(prim, "<", " ")}
	if sec != "" {
		v["secondary"] = strings.ReplaceAll(sec, "<", " ")
	}
	return v, nil
}

func nameView(n NameSpec) View {
	v := View{"primary": n.Primary}
	if n.Secondary != "" {
		v["secondary"] = n.Secondary
	}
	return v
}

func nameText(n NameSpec) string {
	s := n.Primary
	if n.Secondary != "" {
		s += "  " + n.Secondary
	}
	return strings.ReplaceAll(s, " ", "<")
}

// DecodeMRZ reads a TD1 (90), TD2 (72) or TD3 (88) MRZ, verifies every check digit and
// returns the DG1 view fields (without "mrz").
func DecodeMRZ(m string) (View, error) {
	check := func(what, data string, c byte) error {
		want, err := mrzCheckDigit(data)
		if err != nil {
			return err
		}
		if c != want {
			return fmt.Errorf("lds: %s check digit is %q, computed %q", what, c, want)
		}
		return nil
	}
	for i := 0; i < len(m); i++ {
		if _, ok := mrzCharValue(m[i]); !ok {
			return nil, fmt.Errorf("lds: character %q is not allowed in an MRZ", m[i])
		}
	}
	var format, code, state, name, docno, nat, dob, sex, exp, opt, opt2 string
	var docCD, dobCD, expCD byte
	hasOpt2 := false
	switch len(m) {
	case 88:
		format = "TD3"
		l1, l2 := m[:44], m[44:]
		code, state, name = l1[0:2], l1[2:5], l1[5:44]
		docno, docCD, nat, dob, dobCD, sex, exp, expCD, opt = l2[0:9], l2[9], l2[10:13], l2[13:19], l2[19], l2[20:21], l2[21:27], l2[27], l2[28:42]
		if !(l2[42] == '<' && strings.Trim(opt, "<") == "") {
			if err := check("optional data", opt, l2[42]); err != nil {
				return nil, err
			}
		}
		if err := check("composite", l2[0:10]+l2[13:20]+l2[21:43], l2[43]); err != nil {
			return nil, err
		}
	case 72:
		format = "TD2"
		l1, l2 := m[:36], m[36:]
		code, state, name = l1[0:2], l1[2:5], l1[5:36]
		docno, docCD, nat, dob, dobCD, sex, exp, expCD, opt = l2[0:9], l2[9], l2[10:13], l2[13:19], l2[19], l2[20:21], l2[21:27], l2[27], l2[28:35]
		if err := check("composite", l2[0:10]+l2[13:20]+l2[21:35], l2[35]); err != nil {
			return nil, err
		}
	case 90:
		format = "TD1"
		l1, l2, l3 := m[:30], m[30:60], m[60:]
		code, state, docno, docCD, opt = l1[0:2], l1[2:5], l1[5:14], l1[14], l1[15:30]
		dob, dobCD, sex, exp, expCD, nat, opt2 = l2[0:6], l2[6], l2[7:8], l2[8:14], l2[14], l2[15:18], l2[18:29]
		hasOpt2 = true
		name = l3
		if err := check("composite", l1[5:30]+l2[0:7]+l2[8:15]+l2[18:29], l2[29]); err != nil {
			return nil, err
		}
	default:
		return nil, fmt.Errorf("lds: MRZ of %d characters", len(m))
	}
	if docCD == '<' && format != "TD3" {
		// long document number: continued at the start of the optional data
		i := strings.IndexByte(opt, '<')
		if i < 0 {
			i = len(opt)
		}
		if i < 2 {
			return nil, fmt.Errorf("lds: document number continuation missing")
		}
		docno += opt[:i-1]
		docCD = opt[i-1]
		if i < len(opt) {
			opt = opt[i+1:]
		} else {
			opt = ""
		}
	}
	if err := check("document number", docno, docCD); err != nil {
		return nil, err
	}
	if err := check("date of birth", dob, dobCD); err != nil {
		return nil, err
	}
	if err := check("date of expiry", exp, expCD); err != nil {
		return nil, err
	}
	nv, err := parseNameField(name)
	if err != nil {
		return nil, err
	}
	v := View{
		"format":         format,
		"documentCode":   mrzText(code),
		"issuingState":   mrzText(state),
		"name":           nv,
		"documentNumber": mrzText(docno),
		"nationality":    mrzText(nat),
		"dateOfBirth":    mrzText(dob),
		"sex":            mrzText(sex),
		"dateOfExpiry":   mrzText(exp),
		"optionalData":   mrzText(opt),
	}
	if hasOpt2 {
		v["optionalData2"] = mrzText(opt2)
	}
	return v, nil
}

func mrzFieldsView(f MRZFields) View {
	up := func(s string) string { return strings.ToUpper(s) }
	v := View{
		"format":         f.Format,
		"documentCode":   up(f.DocumentCode),
		"issuingState":   up(f.IssuingState),
		"name":           nameView(NameSpec{up(f.Primary), up(f.Secondary)}),
		"documentNumber": up(f.DocumentNumber),
		"nationality":    up(f.Nationality),
		"dateOfBirth":    f.DateOfBirth,
		"sex":            up(f.Sex),
		"dateOfExpiry":   f.DateOfExpiry,
		"optionalData":   up(f.OptionalData),
	}
	if f.Format == "TD1" {
		v["optionalData2"] = up(f.OptionalData2)
	}
	return v
}
