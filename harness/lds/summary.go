package lds

// ExpectedSummary combines the views of the files of one document (keyed by kind: "DG1",
// "DG2", "DG7", "DG11", "DG12", "DG16", "COM", "SOD") into the identity summary a caller is
// shown. Rules (property C19): the name and the date of birth come from DG11 when it has
// them, else from the MRZ; the MRZ values are always surfaced next to them; everything else
// has a single source; every image and every repeated element of the sources appears; the
// LDS / Unicode versions come from EF.SOD when its LDSSecurityObject carries them, else from
// EF.COM. Fields without a source are absent.
func ExpectedSummary(files map[string]View) View {
	get := func(v View, key string) any {
		if v == nil {
			return nil
		}
		x, ok := Normalize(v).(map[string]any)[key]
		if !ok {
			return nil
		}
		return x
	}
	out := View{}
	set := func(key string, val any) {
		switch x := val.(type) {
		case nil:
			return
		case string:
			if x == "" {
				return
			}
		case []any:
			if len(x) == 0 {
				return
			}
		}
		out[key] = val
	}
	if dg1 := files["DG1"]; dg1 != nil {
		set("documentCode", get(dg1, "documentCode"))
		set("issuingState", get(dg1, "issuingState"))
		set("documentNumber", get(dg1, "documentNumber"))
		set("nationality", get(dg1, "nationality"))
		set("sex", get(dg1, "sex"))
		set("name", get(dg1, "name"))
		set("nameMrzRaw", get(dg1, "name"))
		set("dateOfBirth", get(dg1, "dateOfBirth"))
		set("dateOfBirthMrzRaw", get(dg1, "dateOfBirth"))
		set("dateOfExpiryMrzRaw", get(dg1, "dateOfExpiry"))
		set("mrzOptionalData", get(dg1, "optionalData"))
		set("mrzOptionalData2", get(dg1, "optionalData2"))
	}
	if dg11 := files["DG11"]; dg11 != nil {
		set("name", get(dg11, "nameOfHolder"))
		set("otherNames", get(dg11, "otherNames"))
		set("personalNumber", get(dg11, "personalNumber"))
		set("dateOfBirth", get(dg11, "fullDateOfBirth"))
		set("dateOfBirthDg11Raw", get(dg11, "fullDateOfBirth"))
		set("placeOfBirth", get(dg11, "placeOfBirth"))
		set("address", get(dg11, "address"))
		set("telephone", get(dg11, "telephone"))
		set("profession", get(dg11, "profession"))
		set("title", get(dg11, "title"))
	}
	if dg12 := files["DG12"]; dg12 != nil {
		set("issuingAuthority", get(dg12, "issuingAuthority"))
		set("dateOfIssue", get(dg12, "dateOfIssue"))
		set("documentImageFront", get(dg12, "imageFront"))
		set("documentImageRear", get(dg12, "imageRear"))
	}
	set("faceImages", get(files["DG2"], "images"))
	set("signatureImages", get(files["DG7"], "images"))
	set("personsToNotify", get(files["DG16"], "personsToNotify"))

	if com := files["COM"]; com != nil {
		set("ldsVersion", get(com, "ldsVersion"))
		set("unicodeVersion", get(com, "unicodeVersion"))
	}
	if lso, ok := get(files["SOD"], "ldsSecurityObject").(map[string]any); ok {
		if vi, ok := lso["ldsVersionInfo"].(map[string]any); ok {
			set("ldsVersion", vi["ldsVersion"])
			set("unicodeVersion", vi["unicodeVersion"])
		}
	}
	return out
}
