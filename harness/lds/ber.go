package lds

import (
	"encoding/hex"
	"errors"
	"fmt"
	"math/big"
	"strconv"
	"strings"
)

// ---------------------------------------------------------------------------------------
// BER-TLV as used by the LDS (ISO/IEC 7816-4 §5.2.2, ICAO 9303-10 §4.5): identifier octets
// of one to three bytes, definite lengths in short form or long form 81/82/83.
// ---------------------------------------------------------------------------------------

// HexBytes is a byte string that is written as lower-case hexadecimal in JSON.
type HexBytes []byte

func (h HexBytes) MarshalJSON() ([]byte, error) {
	return []byte(strconv.Quote(hex.EncodeToString(h))), nil
}

func (h *HexBytes) UnmarshalJSON(b []byte) error {
	s, err := strconv.Unquote(string(b))
	if err != nil {
		return err
	}
	x, err := hex.DecodeString(s)
	if err != nil {
		return err
	}
	*h = x
	return nil
}

func hx(b []byte) string { return hex.EncodeToString(b) }

// item is one data object of a template: tag (identifier octets read as a big-endian
// number, e.g. 0x5F0E, 0x7F61), content octets and the complete encoding.
type item struct {
	tag  uint32
	cons bool
	val  []byte
	full []byte
}

var errTrunc = errors.New("lds: truncated data object")

// readTLV reads one data object from the front of b.
func readTLV(b []byte) (it item, rest []byte, err error) {
	if len(b) == 0 {
		return it, nil, errTrunc
	}
	i := 0
	t := uint32(b[0])
	it.cons = b[0]&0x20 != 0
	i++
	if b[0]&0x1f == 0x1f {
		for {
			if i >= len(b) {
				return it, nil, errTrunc
			}
			if i >= 3 {
				return it, nil, errors.New("lds: identifier longer than three octets")
			}
			t = t<<8 | uint32(b[i])
			more := b[i]&0x80 != 0
			i++
			if !more {
				break
			}
		}
	}
	it.tag = t
	if i >= len(b) {
		return it, nil, errTrunc
	}
	l := int(b[i])
	i++
	switch {
	case l < 0x80:
	case l == 0x80:
		return it, nil, errors.New("lds: indefinite length is not allowed in LDS files")
	case l <= 0x84:
		n := l - 0x80
		if i+n > len(b) {
			return it, nil, errTrunc
		}
		l = 0
		for k := 0; k < n; k++ {
			l = l<<8 | int(b[i+k])
		}
		i += n
	default:
		return it, nil, fmt.Errorf("lds: unsupported length octet %02x", b[i-1])
	}
	if l < 0 || i+l > len(b) {
		return it, nil, errTrunc
	}
	it.val = b[i : i+l]
	it.full = b[:i+l]
	return it, b[i+l:], nil
}

// readAll splits b into the sequence of data objects it is made of (one nesting level).
func readAll(b []byte) ([]item, error) {
	var out []item
	for len(b) > 0 {
		it, rest, err := readTLV(b)
		if err != nil {
			return nil, err
		}
		out = append(out, it)
		b = rest
	}
	return out, nil
}

// readOne requires b to be exactly one data object with the given tag.
func readOne(b []byte, tag uint32) (item, error) {
	it, rest, err := readTLV(b)
	if err != nil {
		return it, err
	}
	if len(rest) != 0 {
		return it, fmt.Errorf("lds: %d octets after the data object %X", len(rest), it.tag)
	}
	if it.tag != tag {
		return it, fmt.Errorf("lds: outer tag is %X, expected %X", it.tag, tag)
	}
	return it, nil
}

func tagBytes(tag uint32) []byte {
	switch {
	case tag > 0xffff:
		return []byte{byte(tag >> 16), byte(tag >> 8), byte(tag)}
	case tag > 0xff:
		return []byte{byte(tag >> 8), byte(tag)}
	}
	return []byte{byte(tag)}
}

// lenBytes encodes a definite length. form 0 is the shortest encoding; form 1 uses the long
// form even below 128 (81 xx); form 2 always uses two length octets (82 xx xx). Larger values
// fall back to the shortest encoding that holds them.
func lenBytes(n, form int) []byte {
	switch {
	case form == 0 && n < 0x80:
		return []byte{byte(n)}
	case form <= 1 && n <= 0xff:
		return []byte{0x81, byte(n)}
	case n <= 0xffff:
		return []byte{0x82, byte(n >> 8), byte(n)}
	case n <= 0xffffff:
		return []byte{0x83, byte(n >> 16), byte(n >> 8), byte(n)}
	}
	return []byte{0x84, byte(n >> 24), byte(n >> 16), byte(n >> 8), byte(n)}
}

func cat(parts ...[]byte) []byte {
	var out []byte
	for _, p := range parts {
		out = append(out, p...)
	}
	return out
}

// tlvF builds tag || length || value with the given length form.
func tlvF(form int, tag uint32, val ...[]byte) []byte {
	v := cat(val...)
	return cat(tagBytes(tag), lenBytes(len(v), form), v)
}

// der builds a DER data object (always shortest length).
func der(tag uint32, val ...[]byte) []byte { return tlvF(0, tag, val...) }

// parseTagList reads the content of a tag list (5C): a concatenation of identifier octets.
func parseTagList(b []byte) ([]uint32, error) {
	var out []uint32
	for i := 0; i < len(b); {
		t := uint32(b[i])
		first := b[i]
		i++
		if first&0x1f == 0x1f {
			for {
				if i >= len(b) {
					return nil, errors.New("lds: truncated tag in tag list")
				}
				t = t<<8 | uint32(b[i])
				more := b[i]&0x80 != 0
				i++
				if !more {
					break
				}
			}
		}
		out = append(out, t)
	}
	return out, nil
}

// ---------------------------------------------------------------------------------------
// DER primitives (X.690) needed for SecurityInfos, LDSSecurityObject, SubjectPublicKeyInfo
// and the ISO/IEC 39794-5 block.
// ---------------------------------------------------------------------------------------

func derIntBig(v *big.Int) []byte {
	if v.Sign() == 0 {
		return []byte{0}
	}
	if v.Sign() > 0 {
		b := v.Bytes()
		if b[0]&0x80 != 0 {
			b = append([]byte{0}, b...)
		}
		return b
	}
	// two's complement of a negative number
	n := len(v.Bytes()) + 1
	m := new(big.Int).Lsh(big.NewInt(1), uint(8*n))
	m.Add(m, v)
	b := m.Bytes()
	for len(b) > 1 && b[0] == 0xff && b[1]&0x80 != 0 {
		b = b[1:]
	}
	return b
}

func derIntContent(v int64) []byte { return derIntBig(big.NewInt(v)) }

func derInt(v int64) []byte { return der(0x02, derIntContent(v)) }

func parseIntContent(b []byte) (int64, error) {
	if len(b) == 0 {
		return 0, errors.New("lds: empty INTEGER")
	}
	if len(b) > 1 && ((b[0] == 0 && b[1]&0x80 == 0) || (b[0] == 0xff && b[1]&0x80 != 0)) {
		return 0, errors.New("lds: INTEGER is not minimally encoded")
	}
	if len(b) > 8 {
		return 0, errors.New("lds: INTEGER too large")
	}
	var v int64
	if b[0]&0x80 != 0 {
		v = -1
	}
	for _, c := range b {
		v = v<<8 | int64(c)
	}
	return v, nil
}

func derOIDContent(dotted string) ([]byte, error) {
	parts := strings.Split(dotted, ".")
	if len(parts) < 2 {
		return nil, fmt.Errorf("lds: bad OID %q", dotted)
	}
	arcs := make([]uint64, len(parts))
	for i, p := range parts {
		v, err := strconv.ParseUint(p, 10, 63)
		if err != nil {
			return nil, fmt.Errorf("lds: bad OID %q", dotted)
		}
		arcs[i] = v
	}
	if arcs[0] > 2 || (arcs[0] < 2 && arcs[1] > 39) {
		return nil, fmt.Errorf("lds: bad OID %q", dotted)
	}
	b128 := func(v uint64) []byte {
		out := []byte{byte(v & 0x7f)}
		for v >>= 7; v > 0; v >>= 7 {
			out = append([]byte{byte(v&0x7f) | 0x80}, out...)
		}
		return out
	}
	out := b128(arcs[0]*40 + arcs[1])
	for _, a := range arcs[2:] {
		out = append(out, b128(a)...)
	}
	return out, nil
}

func mustOID(dotted string) []byte {
	c, err := derOIDContent(dotted)
	if err != nil {
		panic(err)
	}
	return der(0x06, c)
}

func parseOIDContent(b []byte) (string, error) {
	if len(b) == 0 || b[len(b)-1]&0x80 != 0 {
		return "", errors.New("lds: malformed OBJECT IDENTIFIER")
	}
	var arcs []uint64
	var v uint64
	start := true
	for _, c := range b {
		if start && c == 0x80 {
			return "", errors.New("lds: OBJECT IDENTIFIER arc with leading zero")
		}
		start = false
		v = v<<7 | uint64(c&0x7f)
		if c&0x80 == 0 {
			arcs = append(arcs, v)
			v = 0
			start = true
		}
	}
	first := arcs[0]
	var sb strings.Builder
	switch {
	case first < 40:
		fmt.Fprintf(&sb, "0.%d", first)
	case first < 80:
		fmt.Fprintf(&sb, "1.%d", first-40)
	default:
		fmt.Fprintf(&sb, "2.%d", first-80)
	}
	for _, a := range arcs[1:] {
		fmt.Fprintf(&sb, ".%d", a)
	}
	return sb.String(), nil
}

func derSeq(parts ...[]byte) []byte { return der(0x30, parts...) }
func derSet(parts ...[]byte) []byte { return der(0x31, parts...) }
func derOctets(b []byte) []byte     { return der(0x04, b) }
func derNull() []byte               { return []byte{0x05, 0x00} }
func derPrintable(s string) []byte  { return der(0x13, []byte(s)) }
func derBits(b []byte, unused int) []byte {
	return der(0x03, []byte{byte(unused)}, b)
}
