package lds

import (
	"encoding/json"
	"fmt"
	"math/big"
	"math/rand"
	"regexp"
	"sort"
	"strings"
	"testing"

	"github.com/gmrtd/gmrtd/cms"
	"github.com/gmrtd/gmrtd/document"
	"github.com/gmrtd/gmrtd/mrz"
)

// ---------------------------------------------------------------------------------------
// gmrtdView runs the real constructor and projects its result to the normalised View.
// The projection copies values; it does not decode anything (the one exception is the
// unused-bit count of a BIT STRING, derived from asn1.BitString.BitLength).
// ---------------------------------------------------------------------------------------

func gName(n *mrz.MrzName) View {
	v := View{"primary": n.Primary}
	if n.Secondary != "" {
		v["secondary"] = n.Secondary
	}
	return v
}

func gNames(ns []mrz.MrzName) []any {
	out := make([]any, len(ns))
	for i := range ns {
		out[i] = gName(&ns[i])
	}
	return out
}

func gStr(v View, key, s string) {
	if s != "" {
		v[key] = s
	}
}

func gList(v View, key string, l []string) {
	if len(l) > 0 {
		put(v, key, l)
	}
}

func gBig(v View, key string, b *big.Int) {
	if b != nil {
		v[key] = b.Int64()
	}
}

func gAlg(a cms.AlgorithmIdentifier) View {
	v := View{"algorithm": a.Algorithm.String()}
	if len(a.Parameters.FullBytes) > 0 {
		v["parameters"] = hx(a.Parameters.FullBytes)
	}
	return v
}

func gSecInfos(s *document.SecurityInfos) View {
	out := View{}
	app := func(key string, v View) {
		l, _ := out[key].([]any)
		out[key] = append(l, v)
	}
	for _, x := range s.PaceInfos {
		v := View{"protocol": x.Protocol.String(), "version": x.Version}
		gBig(v, "parameterId", x.ParameterId)
		app("paceInfos", v)
	}
	for _, x := range s.PaceDomainParamInfos {
		v := View{"protocol": x.Protocol.String(), "domainParameter": gAlg(x.DomainParameter)}
		gBig(v, "parameterId", x.ParameterId)
		app("paceDomainParameterInfos", v)
	}
	for _, x := range s.ActiveAuthInfos {
		app("activeAuthenticationInfos", View{"protocol": x.Protocol.String(), "version": x.Version, "signatureAlgorithm": x.SignatureAlgorithm.String()})
	}
	for _, x := range s.ChipAuthInfos {
		v := View{"protocol": x.Protocol.String(), "version": x.Version}
		gBig(v, "keyId", x.KeyId)
		app("chipAuthenticationInfos", v)
	}
	for _, x := range s.ChipAuthPubKeyInfos {
		k := x.ChipAuthenticationPublicKey
		v := View{"protocol": x.Protocol.String(), "chipAuthenticationPublicKey": View{"algorithm": gAlg(k.Algorithm),
			"subjectPublicKey": hx(k.SubjectPublicKey.Bytes), "unusedBits": len(k.SubjectPublicKey.Bytes)*8 - k.SubjectPublicKey.BitLength}}
		gBig(v, "keyId", x.KeyId)
		app("chipAuthenticationPublicKeyInfos", v)
	}
	for _, x := range s.TermAuthInfos {
		// gmrtd's TerminalAuthenticationInfo has no efCVCA member: nothing to project
		app("terminalAuthenticationInfos", View{"protocol": x.Protocol.String(), "version": x.Version})
	}
	for _, x := range s.EfDirInfos {
		app("efDirInfos", View{"protocol": x.Protocol.String(), "efDir": hx(x.EFDir)})
	}
	for _, x := range s.UnhandledInfos {
		app("unknownInfos", View{"protocol": x.Protocol.String(), "raw": hx(x.Raw)})
	}
	return SortSecurityInfoLists(out)
}

func gDG2(d *document.DG2) View {
	imgs := []any{}
	for _, im := range d.Images {
		imgs = append(imgs, hx(im.Image))
	}
	var tv []any
	for _, b := range d.BITs {
		hv := View{}
		for key, val := range map[string][]byte{"icaoHeaderVersion": b.BHT.IcaoHeaderVersion, "biometricType": b.BHT.BiometricType,
			"biometricSubType": b.BHT.BiometricSubType, "creationDateTime": b.BHT.CreationDateTime, "validityPeriod": b.BHT.ValidityPeriod,
			"pid": b.BHT.PID, "formatOwner": b.BHT.FormatOwner, "formatType": b.BHT.FormatType} {
			if len(val) > 0 { // a missing element reads as an empty value in gmrtd
				hv[key] = hx(val)
			}
		}
		x := View{"header": hv}
		if f := b.BDB.Iso19794; f != nil {
			var faces []any
			for _, im := range f.Facial.Images {
				fi, ii := im.FacialInformation, im.ImageInformation
				fps := []any{}
				for _, p := range im.Features {
					fps = append(fps, View{"type": p.Type, "majorPoint": p.MajorPoint, "minorPoint": p.MinorPoint, "x": p.X, "y": p.Y})
				}
				faces = append(faces, View{
					"blockLength": fi.Length, "numberOfFeaturePoints": fi.NumberOfPoints, "gender": fi.Gender, "eyeColour": fi.EyeColor,
					"hairColour": fi.HairColor, "featureMask": hx(fi.Properties[:]), "expression": hx(fi.Expression[:]), "pose": hx(fi.Pose[:]),
					"poseUncertainty": hx(fi.PoseUncertainty[:]), "featurePoints": fps,
					"faceImageType": ii.Type, "imageDataType": ii.DataType, "width": ii.Width, "height": ii.Height, "colourSpace": ii.ColorSpace,
					"sourceType": ii.SourceType, "deviceType": ii.DeviceType, "quality": ii.Quality, "image": hx(im.Data),
				})
			}
			h := f.Facial.Header
			x["encoding"] = "iso19794"
			x["iso19794"] = View{"formatId": hx(h.FormatID[:]), "versionId": hx(h.VersionID[:]), "recordLength": h.RecordLength, "numberOfFaces": h.NumberOfFaces, "faces": faces}
		}
		if f := b.BDB.Iso39794; f != nil {
			var reps []any
			for _, r := range f.FaceImageDataBlock.RepresentationBlocks {
				b2 := r.ImageRepresentation.Base.ImageRepresentation2DBlock
				inf := b2.ImageInformation2DBlock
				rv := View{"representationId": r.RepresentationId, "image": hx(b2.RepresentationData2D), "imageDataFormat": hx(inf.ImageDataFormat.Raw),
					"imageSize":       View{"width": inf.ImageSizeBlock.Width, "height": inf.ImageSizeBlock.Height},
					"captureDateTime": View{"year": r.CaptureDateTimeBlock.Year, "month": r.CaptureDateTimeBlock.Month, "day": r.CaptureDateTimeBlock.Day, "hour": r.CaptureDateTimeBlock.Hour, "minute": r.CaptureDateTimeBlock.Minute, "second": r.CaptureDateTimeBlock.Second, "millisecond": r.CaptureDateTimeBlock.Millisecond},
					"sessionId":       r.SessionId, "derivedFrom": r.DerivedFrom}
				if len(inf.FaceImageKind2D.Raw) > 0 {
					rv["faceImageKind2D"] = hx(inf.FaceImageKind2D.Raw)
				}
				if len(inf.ImageColourSpace.Raw) > 0 {
					rv["imageColourSpace"] = hx(inf.ImageColourSpace.Raw)
				}
				reps = append(reps, rv)
			}
			x["encoding"] = "iso39794"
			x["iso39794"] = View{"generation": f.FaceImageDataBlock.VersionBlock.Generation, "year": f.FaceImageDataBlock.VersionBlock.Year, "representations": reps}
		}
		tv = append(tv, x)
	}
	return View{"images": imgs, "templates": tv}
}

func gPersons(ps []document.PersonToNotify) []any {
	var out []any
	for _, p := range ps {
		pv := View{"dateRecorded": p.DateRecorded, "telephone": p.Telephone}
		if p.Name != nil {
			pv["name"] = gName(p.Name)
		}
		put(pv, "address", p.Address)
		out = append(out, pv)
	}
	return out
}

func gmrtdView(kind string, raw []byte) (View, error) {
	switch kind {
	case "DG1":
		d, err := document.NewDG1(raw)
		if err != nil {
			return nil, err
		}
		m := d.Mrz
		v := View{"mrz": d.RawMrz, "format": map[int]string{90: "TD1", 72: "TD2", 88: "TD3"}[len(d.RawMrz)], "documentCode": m.DocumentCode,
			"issuingState": m.IssuingState, "name": gName(m.NameOfHolder), "documentNumber": m.DocumentNumber, "nationality": m.Nationality,
			"dateOfBirth": m.DateOfBirth, "sex": m.Sex, "dateOfExpiry": m.DateOfExpiry, "optionalData": m.OptionalData}
		if len(d.RawMrz) == 90 {
			v["optionalData2"] = m.OptionalData2
		}
		return v, nil
	case "DG2":
		d, err := document.NewDG2(raw)
		if err != nil {
			return nil, err
		}
		return gDG2(d), nil
	case "DG7":
		d, err := document.NewDG7(raw)
		if err != nil {
			return nil, err
		}
		imgs := []any{}
		for _, im := range d.Images {
			imgs = append(imgs, hx(im.Image))
		}
		return View{"images": imgs}, nil
	case "DG11":
		d, err := document.NewDG11(raw)
		if err != nil {
			return nil, err
		}
		p := d.Details
		v := View{}
		if p.NameOfHolder != nil {
			v["nameOfHolder"] = gName(p.NameOfHolder)
		}
		if len(p.OtherNames) > 0 {
			v["otherNames"] = gNames(p.OtherNames)
		}
		gStr(v, "personalNumber", p.PersonalNumber)
		gStr(v, "fullDateOfBirth", p.FullDateOfBirth)
		gList(v, "placeOfBirth", p.PlaceOfBirth)
		gList(v, "address", p.Address)
		gStr(v, "telephone", p.Telephone)
		gStr(v, "profession", p.Profession)
		gStr(v, "title", p.Title)
		gStr(v, "personalSummary", p.PersonalSummary)
		if len(p.ProofOfCitizenship) > 0 {
			v["proofOfCitizenship"] = hx(p.ProofOfCitizenship)
		}
		gList(v, "otherValidTDNumbers", p.OtherTravelDocuments)
		gStr(v, "custodyInformation", p.CustodyInformation)
		return v, nil
	case "DG12":
		d, err := document.NewDG12(raw)
		if err != nil {
			return nil, err
		}
		p := d.Details
		v := View{}
		gStr(v, "issuingAuthority", p.IssuingAuthority)
		gStr(v, "dateOfIssue", p.DateOfIssue)
		if len(p.OtherPersons) > 0 {
			v["otherPersons"] = gNames(p.OtherPersons)
		}
		gStr(v, "endorsementsAndObservations", p.EndorsementsAndObservations)
		gStr(v, "taxExitRequirements", p.TaxExitRequirements)
		if len(p.ImageFront) > 0 {
			v["imageFront"] = hx(p.ImageFront)
		}
		if len(p.ImageRear) > 0 {
			v["imageRear"] = hx(p.ImageRear)
		}
		gStr(v, "dateTimeOfPersonalization", p.PersoDateTime)
		gStr(v, "personalizationSystemSerialNumber", p.PersoSystemSerialNumber)
		return v, nil
	case "DG13":
		d, err := document.NewDG13(raw)
		if err != nil {
			return nil, err
		}
		return View{"content": hx(d.Content)}, nil
	case "DG14":
		d, err := document.NewDG14(raw)
		if err != nil {
			return nil, err
		}
		return View{"securityInfos": gSecInfos(d.SecInfos)}, nil
	case "DG15":
		d, err := document.NewDG15(raw)
		if err != nil {
			return nil, err
		}
		return View{"subjectPublicKeyInfo": hx(d.SubjectPublicKeyInfoBytes)}, nil
	case "DG16":
		d, err := document.NewDG16(raw)
		if err != nil {
			return nil, err
		}
		return View{"personsToNotify": gPersons(d.PersonsToNotify)}, nil
	case "COM":
		d, err := document.NewCOM(raw)
		if err != nil {
			return nil, err
		}
		tl := make([]any, len(d.TagList))
		for i, t := range d.TagList {
			tl[i] = int(t)
		}
		return View{"ldsVersion": d.LdsVersion, "unicodeVersion": d.UnicodeVersion, "tagList": sortedNums(tl)}, nil
	case "SOD":
		d, err := document.NewSOD(raw)
		if err != nil {
			return nil, err
		}
		o := d.LdsSecurityObject
		var hashes []any
		for _, h := range o.DataGroupHashValues {
			hashes = append(hashes, View{"dataGroupNumber": h.DataGroupNumber, "dataGroupHashValue": hx(h.DataGroupHashValue)})
		}
		lso := View{"version": o.Version, "hashAlgorithm": gAlg(o.HashAlgorithm), "dataGroupHashValues": hashes}
		if o.LdsVersionInfo.LdsVersion != "" || o.LdsVersionInfo.UnicodeVersion != "" {
			lso["ldsVersionInfo"] = View{"ldsVersion": o.LdsVersionInfo.LdsVersion, "unicodeVersion": o.LdsVersionInfo.UnicodeVersion}
		}
		return View{"eContentType": d.SD.Content.EContentType.String(), "ldsSecurityObject": lso}, nil
	case "CardAccess":
		d, err := document.NewCardAccess(raw)
		if err != nil {
			return nil, err
		}
		return View{"securityInfos": gSecInfos(d.SecurityInfos)}, nil
	case "CardSecurity":
		d, err := document.NewCardSecurity(raw)
		if err != nil {
			return nil, err
		}
		return View{"eContentType": d.SD.Content.EContentType.String(), "securityInfos": gSecInfos(d.SecurityInfos)}, nil
	}
	return nil, fmt.Errorf("unknown kind %s", kind)
}

// ---------------------------------------------------------------------------------------
// Known discrepancies between gmrtd's view and the reference reading of the standard. Each
// entry matches lines of Diff(reference, gmrtd) (or a constructor error) for one kind. The
// tests pass while these are the only differences, and log how often each was hit with one
// reproduction. Anything else fails the test.
// ---------------------------------------------------------------------------------------

type known struct {
	key, kinds string
	pattern    *regexp.Regexp
	why        string
	applies    func(FileSpec) bool // optional extra condition on the file
}

func hasInfo(typ string, cond func(*SecInfoSpec) bool) func(FileSpec) bool {
	return func(s FileSpec) bool {
		if s.SecurityInfos == nil {
			return false
		}
		for i := range s.SecurityInfos.Infos {
			if x := &s.SecurityInfos.Infos[i]; x.Type == typ && (cond == nil || cond(x)) {
				return true
			}
		}
		return false
	}
}

var knownDiscrepancies = []known{
	{"DG2-images-only-last-template", "DG2", regexp.MustCompile(`^images(\[\d+\])?: `),
		"NewDG2 assigns out.Images = tmpImages per biometric information template instead of appending: with n > 1 templates DG2.Images (and the summary's FaceImages) hold only the images of the last template; images of earlier templates are reachable only through BITs[i].BDB", nil},
	{"ISO19794-feature-point-layout", "DG2", regexp.MustCompile(`^templates\[\d+\]\.iso19794\.faces\[\d+\]\.featurePoints\[\d+\]\.(majorPoint|minorPoint|x|y): `),
		"iso19794.FacialFeature is {Type, MajorPoint u8, MinorPoint u8, X u16, Y u16, Reserved u8}; ISO/IEC 19794-5:2005 5.6 defines type(1) code(1: major in the high nibble, minor in the low nibble) x(2) y(2) reserved(2): MajorPoint receives the whole code octet, MinorPoint the high octet of x, X = xLow<<8|yHigh, Y = yLow<<8", nil},
	{"DG11-empty-list-component-dropped", "DG11", regexp.MustCompile(`^(placeOfBirth|address|otherValidTDNumbers)(\[\d+\])?: `),
		"splitFieldsFiltered drops empty components of '<'-separated lists (5F11, 5F42, 5F17): positions shift, e.g. 'A<<C' is shown as [A C] instead of [A '' C]. DG16 addresses keep them (strings.Split), so the same value reads differently in DG11 and DG16", nil},
	{"TerminalAuthenticationInfo-efCVCA-dropped", "DG14 CardAccess CardSecurity", regexp.MustCompile(`^securityInfos\.terminalAuthenticationInfos(\[\d+\])?(\.efCVCA)?: `),
		"TerminalAuthenticationInfo has no efCVCA member (TR-03110-3 A.1.1.3: efCVCA FileID OPTIONAL); the element is silently ignored",
		hasInfo("terminalAuth", func(x *SecInfoSpec) bool { return x.EFCVCA != nil })},
	{"EFDIRInfo-wrong-OID-arc", "DG14 CardAccess CardSecurity", regexp.MustCompile(`^securityInfos\.(efDirInfos|unknownInfos)(\[\d+\])?(\.\w+)?: `),
		"oid.OidEfDir is 1.3.27.1.1.13 (retired iso(1) identified-organization(3) icao(27) arc); Doc 9303-10/-11 define id-EFDIR = {id-icao-mrtd-security 13} = 2.23.136.1.1.13, so a conforming EFDIRInfo lands in UnhandledInfos and EfDirInfos stays empty",
		hasInfo("efDir", nil)},
}

type tally struct {
	n     int
	repro string
}

type report struct {
	t      *testing.T
	hits   map[string]*tally
	failed int
}

func newReport(t *testing.T) *report { return &report{t: t, hits: map[string]*tally{}} }

func (r *report) add(kind string, spec FileSpec, opts EncodeOpts, raw []byte, lines []string) {
	for _, line := range lines {
		matched := false
		for _, k := range knownDiscrepancies {
			if strings.Contains(" "+k.kinds+" ", " "+kind+" ") && k.pattern.MatchString(line) && (k.applies == nil || k.applies(spec)) {
				matched = true
				h := r.hits[k.key]
				if h == nil {
					js, _ := json.Marshal(spec)
					if len(js) > 1500 {
						js = append(js[:1500], "..."...)
					}
					rw := hx(raw)
					if len(rw) > 600 {
						rw = rw[:600] + "..."
					}
					h = &tally{repro: fmt.Sprintf("%s\n      opts %+v\n      spec %s\n      raw  %s", line, opts, js, rw)}
					r.hits[k.key] = h
				}
				h.n++
				break
			}
		}
		if !matched {
			r.failed++
			if r.failed <= 15 {
				js, _ := json.Marshal(spec)
				r.t.Errorf("UNKNOWN DISCREPANCY %s: %s\n  opts %+v\n  spec %s\n  raw %x", kind, line, opts, js, raw)
			}
		}
	}
}

func (r *report) log() {
	keys := make([]string, 0, len(r.hits))
	for k := range r.hits {
		keys = append(keys, k)
	}
	sort.Strings(keys)
	for _, key := range keys {
		for _, k := range knownDiscrepancies {
			if k.key == key {
				r.t.Logf("KNOWN DISCREPANCY %s (%d diff lines)\n    why: %s\n    e.g. %s", key, r.hits[key].n, k.why, r.hits[key].repro)
			}
		}
	}
	if r.failed > 15 {
		r.t.Errorf("... %d unknown discrepancies in total", r.failed)
	}
}

func compare(rep *report, kind string, spec FileSpec, opts EncodeOpts) {
	raw, err := Encode(spec, opts)
	if err != nil {
		rep.t.Fatalf("%s Encode: %v", kind, err)
	}
	want, err := Decode(kind, raw)
	if err != nil {
		rep.t.Fatalf("%s reference Decode: %v", kind, err)
	}
	got, err := gmrtdView(kind, raw)
	if err != nil {
		rep.add(kind, spec, opts, raw, []string{"constructor error: " + err.Error()})
		return
	}
	rep.add(kind, spec, opts, raw, Diff(want, got))
	// equal bytes give equal views, and the view does not alias the caller's buffer
	cp := append([]byte(nil), raw...)
	again, err := gmrtdView(kind, cp)
	for i := range cp {
		cp[i] ^= 0xff
	}
	if err != nil || !Equal(got, again) {
		rep.add(kind, spec, opts, raw, []string{"nondeterministic: second construction from equal bytes differs"})
	}
}

func TestGmrtdViewEnumerated(t *testing.T) {
	rep := newReport(t)
	for _, kind := range Kinds {
		n := 0
		for _, s := range Enumerate(kind, 3) {
			for _, o := range EnumerateOpts(kind) {
				compare(rep, kind, s, o)
				n++
			}
		}
		t.Logf("%-12s %d files compared", kind, n)
	}
	rep.log()
}

func TestGmrtdViewRandom(t *testing.T) {
	rep := newReport(t)
	r := rand.New(rand.NewSource(20260923))
	for _, kind := range Kinds {
		for i := 0; i < 400; i++ {
			compare(rep, kind, RandomSpec(kind, r), RandomOpts(r))
		}
	}
	rep.log()
}

// A file of kind K presented as data group N != K must be rejected by Document.NewDG.
func TestGmrtdRejectsWrongDataGroup(t *testing.T) {
	pairs := WrongTagPairs()
	accepted := 0
	for _, p := range pairs {
		var doc document.Document
		if err := doc.NewDG(p.AsDG, p.Raw); err == nil {
			accepted++
			t.Errorf("%s accepted as DG%d (raw %x)", p.Kind, p.AsDG, []byte(p.Raw))
		}
	}
	t.Logf("%d wrong-data-group pairings, %d accepted", len(pairs), accepted)
}

// The view of a mutated copy changes nothing in an already built object.
func TestGmrtdViewDoesNotAliasInput(t *testing.T) {
	r := rand.New(rand.NewSource(5))
	for _, kind := range []string{"DG2", "DG7", "DG11", "DG12", "DG13", "DG15"} {
		raw, _ := Encode(RandomSpec(kind, r), EncodeOpts{})
		buf := append([]byte(nil), raw...)
		var before, after View
		switch kind {
		case "DG11":
			d, err := document.NewDG11(buf)
			if err != nil {
				t.Fatal(err)
			}
			before = View{"x": hx(d.Details.ProofOfCitizenship), "r": hx(d.RawData)}
			for i := range buf {
				buf[i] = 0
			}
			after = View{"x": hx(d.Details.ProofOfCitizenship), "r": hx(d.RawData)}
		case "DG12":
			d, err := document.NewDG12(buf)
			if err != nil {
				t.Fatal(err)
			}
			before = View{"x": hx(d.Details.ImageFront), "r": hx(d.RawData)}
			for i := range buf {
				buf[i] = 0
			}
			after = View{"x": hx(d.Details.ImageFront), "r": hx(d.RawData)}
		case "DG13":
			d, err := document.NewDG13(buf)
			if err != nil {
				t.Fatal(err)
			}
			before = View{"x": hx(d.Content)}
			for i := range buf {
				buf[i] = 0
			}
			after = View{"x": hx(d.Content)}
		case "DG15":
			d, err := document.NewDG15(buf)
			if err != nil {
				t.Fatal(err)
			}
			before = View{"x": hx(d.SubjectPublicKeyInfoBytes)}
			for i := range buf {
				buf[i] = 0
			}
			after = View{"x": hx(d.SubjectPublicKeyInfoBytes)}
		case "DG2":
			d, err := document.NewDG2(buf)
			if err != nil {
				t.Fatal(err)
			}
			before = gDG2(d)
			for i := range buf {
				buf[i] = 0
			}
			after = gDG2(d)
		case "DG7":
			d, err := document.NewDG7(buf)
			if err != nil {
				t.Fatal(err)
			}
			before = View{"x": hx(d.Images[0].Image)}
			for i := range buf {
				buf[i] = 0
			}
			after = View{"x": hx(d.Images[0].Image)}
		}
		if !Equal(before, after) {
			t.Errorf("%s: object changed when the caller's buffer was overwritten", kind)
		}
	}
}

// ---------------------------------------------------------------------------------------
// Identity summary
// ---------------------------------------------------------------------------------------

func gSummary(s *document.DocumentSummary) View {
	a := s.IdentityAttributes
	v := View{}
	gStr(v, "documentCode", a.DocumentCode)
	if a.IssuingState != nil {
		gStr(v, "issuingState", a.IssuingState.Alpha3)
	}
	gStr(v, "documentNumber", a.DocumentNumber)
	if a.Nationality != nil {
		gStr(v, "nationality", a.Nationality.Alpha3)
	}
	gStr(v, "sex", a.Sex)
	if a.Name != nil {
		v["name"] = gName(a.Name)
	}
	if a.NameMrzRaw != nil {
		v["nameMrzRaw"] = gName(a.NameMrzRaw)
	}
	if len(a.OtherNames) > 0 {
		v["otherNames"] = gNames(a.OtherNames)
	}
	gStr(v, "dateOfBirth", a.DateOfBirth)
	gStr(v, "dateOfBirthMrzRaw", a.DateOfBirthMrzRaw)
	gStr(v, "dateOfBirthDg11Raw", a.DateOfBirthDg11Raw)
	gStr(v, "dateOfExpiryMrzRaw", a.DateOfExpiryMrzRaw)
	gList(v, "placeOfBirth", a.PlaceOfBirth)
	gList(v, "address", a.Address)
	gStr(v, "telephone", a.Telephone)
	gStr(v, "profession", a.Profession)
	gStr(v, "title", a.Title)
	gStr(v, "personalNumber", a.PersonalNumber)
	gStr(v, "mrzOptionalData", a.MrzOptionalData)
	gStr(v, "mrzOptionalData2", a.MrzOptionalData2)
	gStr(v, "issuingAuthority", a.IssuingAuthority)
	gStr(v, "dateOfIssue", a.DateOfIssue)
	var faces, sigs []any
	for _, im := range a.FaceImages {
		faces = append(faces, hx(im.Data))
	}
	for _, im := range a.SignatureImages {
		sigs = append(sigs, hx(im.Data))
	}
	if len(faces) > 0 {
		v["faceImages"] = faces
	}
	if len(sigs) > 0 {
		v["signatureImages"] = sigs
	}
	if a.DocumentImageFront != nil {
		v["documentImageFront"] = hx(a.DocumentImageFront.Data)
	}
	if a.DocumentImageRear != nil {
		v["documentImageRear"] = hx(a.DocumentImageRear.Data)
	}
	if len(a.PersonsToNotify) > 0 {
		v["personsToNotify"] = gPersons(a.PersonsToNotify)
	}
	gStr(v, "ldsVersion", s.LdsVersion)
	gStr(v, "unicodeVersion", s.UnicodeVersion)
	return v
}

var knownSummaryDiscrepancies = []known{
	{"summary-faceImages-only-last-template", "", regexp.MustCompile(`^faceImages(\[\d+\])?: `), "consequence of DG2-images-only-last-template", nil},
	{"summary-empty-list-component-dropped", "", regexp.MustCompile(`^(placeOfBirth|address)(\[\d+\])?: `), "consequence of DG11-empty-list-component-dropped", nil},
}

func TestGmrtdSummary(t *testing.T) {
	r := rand.New(rand.NewSource(77))
	hits := map[string]int{}
	first := map[string]string{}
	for i := 0; i < 400; i++ {
		files := map[string]View{}
		var docEx document.DocumentEx
		l := &docEx.Document.Mf.Lds1
		for _, kind := range []string{"DG1", "DG2", "DG7", "DG11", "DG12", "DG16", "COM", "SOD"} {
			if kind != "DG1" && r.Intn(3) == 0 {
				continue
			}
			raw, err := Encode(RandomSpec(kind, r), RandomOpts(r))
			if err != nil {
				t.Fatal(err)
			}
			if files[kind], err = Decode(kind, raw); err != nil {
				t.Fatal(err)
			}
			switch kind {
			case "COM":
				l.Com, err = document.NewCOM(raw)
			case "SOD":
				l.Sod, err = document.NewSOD(raw)
			default:
				err = docEx.Document.NewDG(KindDG(kind), raw)
			}
			if err != nil {
				t.Fatalf("%s: %v", kind, err)
			}
		}
		want := ExpectedSummary(files)
		for _, k := range []string{"issuingState", "nationality"} {
			if want[k] == "D" { // gmrtd resolves country codes; Doc 9303-3 §5: "D" is Germany
				want[k] = "DEU"
			}
		}
		got := gSummary(docEx.Summary())
	lines:
		for _, line := range Diff(want, got) {
			for _, k := range knownSummaryDiscrepancies {
				if k.pattern.MatchString(line) {
					hits[k.key]++
					if first[k.key] == "" {
						first[k.key] = line
					}
					continue lines
				}
			}
			t.Errorf("UNKNOWN SUMMARY DISCREPANCY: %s\n want %s\n got  %s", line, want.JSON(), got.JSON())
		}
	}
	for k, n := range hits {
		t.Logf("KNOWN DISCREPANCY %s (%d diff lines), e.g. %s", k, n, first[k])
	}
}

// ---------------------------------------------------------------------------------------
// Probes outside the sampled space: capacity limits and files with a foreign object in front.
// ---------------------------------------------------------------------------------------

func construct(kind string, raw []byte) error {
	_, err := gmrtdView(kind, raw)
	return err
}

// Every constructor (not only Document.NewDG) rejects the well-formed file of another kind.
func TestGmrtdConstructorsRejectOtherKinds(t *testing.T) {
	n := 0
	for _, a := range Kinds {
		for _, s := range []FileSpec{Enumerate(a, 2)[0], Enumerate(a, 2)[len(Enumerate(a, 2))/2]} {
			raw, err := Encode(s, EncodeOpts{})
			if err != nil {
				t.Fatal(err)
			}
			for _, b := range Kinds {
				ta, _ := KindTag(a)
				tb, _ := KindTag(b)
				if ta == tb {
					continue
				}
				n++
				if err := construct(b, raw); err == nil {
					t.Errorf("%s accepted by the constructor of %s (raw %x)", a, b, raw)
				}
			}
		}
	}
	t.Logf("%d (file, foreign constructor) pairs, all rejected", n)
}

// A data group template preceded by a complete foreign template: the outer (first) tag does
// not belong to the requested data group. gmrtd looks the requested tag up among all
// top-level objects, so these are accepted; logged as a known discrepancy.
func TestGmrtdForeignObjectInFront(t *testing.T) {
	accepted := []string{}
	pairs := ForeignPrefixPairs()
	for _, p := range pairs {
		if _, err := Decode(p.AsKind, p.Raw); err == nil {
			t.Fatalf("reference accepted %s||%s as %s", p.Front, p.AsKind, p.AsKind)
		}
		if construct(p.AsKind, p.Raw) == nil {
			accepted = append(accepted, p.Front+"||"+p.AsKind)
			if p.AsKind == "DG13" || p.AsKind == "DG15" || p.AsKind == "SOD" {
				t.Errorf("unexpected acceptance of %s||%s as %s", p.Front, p.AsKind, p.AsKind)
			}
		}
	}
	t.Logf("KNOWN DISCREPANCY outer-tag-not-checked-first (%d of %d accepted)\n    why: New{DG1,DG2,DG7,DG11,DG12,DG14,DG16,COM} use tlv.Decode(all) + nodes.NodeByTag(tag): a file whose first (outer) object is a foreign template is accepted as the second kind when the wanted template follows it; RawData (what gets hashed) is the whole input. DG13, DG15, SOD use UnwrapTag and reject.\n    accepted (front||wanted): %s",
		len(accepted), len(pairs), strings.Join(accepted, ", "))
}

// Well-formed files beyond gmrtd's built-in capacity limits are rejected.
func TestGmrtdCapacityLimits(t *testing.T) {
	r := rand.New(rand.NewSource(3))
	h := BHTSpec{FormatOwner: HexBytes{1, 1}, FormatType: HexBytes{0, 8}}
	faces := func(n, points int) FileSpec {
		rec := &FaceRecordSpec{}
		for i := 0; i < n; i++ {
			f := rFace(r)
			f.FeaturePoints = nil
			for k := 0; k < points; k++ {
				f.FeaturePoints = append(f.FeaturePoints, FeaturePointSpec{Type: 1, Major: 1 + k%12, Minor: 1 + k%15, X: k, Y: k})
			}
			rec.Faces = append(rec.Faces, f)
		}
		return FileSpec{Kind: "DG2", DG2: &DG2Spec{Templates: []BITSpec{{Header: h, ISO19794: rec}}}}
	}
	reps := &Face39794Spec{Generation: 3, Year: 2019, Representations: []Rep39794Spec{rRep39794(r, 1), rRep39794(r, 2)}}
	for _, c := range []struct {
		name   string
		spec   FileSpec
		reject bool
		why    string
	}{
		{"4 faces in one ISO 19794-5 record", faces(4, 0), false, ""},
		{"5 faces in one ISO 19794-5 record", faces(5, 0), true, "iso19794.MaxImages = 4; the record header allows 65535"},
		{"32 feature points", faces(1, 32), false, ""},
		{"33 feature points", faces(1, 33), true, "iso19794.MaxFacialFeatures = 32; ISO/IEC 19794-5 defines more than 80 feature point codes"},
		{"2 representation blocks in one ISO 39794-5 block", FileSpec{Kind: "DG2", DG2: &DG2Spec{Templates: []BITSpec{{Header: h, ISO39794: reps}}}}, true,
			"ProcessISO39794p5 requires exactly one representation block (ICAO application profile); ISO/IEC 39794-5 itself allows several"},
	} {
		raw, err := Encode(c.spec, EncodeOpts{})
		if err != nil {
			t.Fatal(err)
		}
		want, err := Decode("DG2", raw)
		if err != nil {
			t.Fatalf("%s: reference: %v", c.name, err)
		}
		got, err := gmrtdView("DG2", raw)
		switch {
		case err != nil && c.reject:
			t.Logf("KNOWN LIMIT %s: rejected (%s)", c.name, c.why)
		case err != nil:
			t.Errorf("%s: rejected: %v", c.name, err)
		case c.reject:
			t.Errorf("%s: expected the documented limit, but accepted", c.name)
		default:
			for _, line := range Diff(want, got) {
				if !strings.Contains(line, "featurePoints") {
					t.Errorf("%s: %s", c.name, line)
				}
			}
		}
	}
}

// The JSON form of the DG12 view names the rear image "tmageRear" (struct tag typo).
func TestGmrtdDG12JSONFieldNames(t *testing.T) {
	im := ImageSpec{Size: 40}
	raw, _ := Encode(FileSpec{Kind: "DG12", DG12: &DG12Spec{ImageFront: &im, ImageRear: &im}}, EncodeOpts{})
	d, err := document.NewDG12(raw)
	if err != nil {
		t.Fatal(err)
	}
	js, _ := json.Marshal(d)
	var m map[string]any // rawData is a string, documentDetails an object
	if err := json.Unmarshal(js, &m); err != nil {
		t.Fatal(err)
	}
	det, _ := m["documentDetails"].(map[string]any)
	if _, ok := det["imageFront"]; !ok {
		t.Errorf("imageFront missing from JSON view")
	}
	if _, ok := det["imageRear"]; !ok {
		if _, typo := det["tmageRear"]; typo {
			t.Logf("KNOWN DISCREPANCY DG12-json-tmageRear: DocumentDetails.ImageRear is tagged json:\"tmageRear\"; the JSON view has no imageRear key")
		} else {
			t.Errorf("imageRear missing from JSON view")
		}
	}
}
