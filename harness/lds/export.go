package lds

// Exported wrappers used by the conformance driver (harness/checks), which projects the
// structs of the library under test to View.

func Put(v View, key string, val any) { put(v, key, val) }
func Hx(b []byte) string              { return hx(b) }
func SortedNums(l []any) []any        { return sortedNums(l) }
