package lds

import (
	"fmt"
	"math/rand"
	"strings"
)

const (
	alphaUpper = "ABCDEFGHIJKLMNOPQRSTUVWXYZ"
	alphaNum   = "ABCDEFGHIJKLMNOPQRSTUVWXYZ0123456789"
	digits     = "0123456789"
)

var nationalLetters = []string{"É", "Ü", "Ø", "Ñ", "Ł", "Ç", "Å", "Ž", "Ö", "Æ"}

func rword(r *rand.Rand, alphabet string, min, max int) string {
	n := min + r.Intn(max-min+1)
	var sb strings.Builder
	for i := 0; i < n; i++ {
		sb.WriteByte(alphabet[r.Intn(len(alphabet))])
	}
	return sb.String()
}

// rwordN is a word that may hold a national (multi-octet UTF-8) letter.
func rwordN(r *rand.Rand, min, max int) string {
	w := rword(r, alphaUpper, min, max)
	if r.Intn(3) == 0 {
		i := r.Intn(len(w))
		w = w[:i] + nationalLetters[r.Intn(len(nationalLetters))] + w[i+1:]
	}
	return w
}

func rwords(r *rand.Rand, national bool, min, max int) string {
	n := min + r.Intn(max-min+1)
	ws := make([]string, n)
	for i := range ws {
		if national {
			ws[i] = rwordN(r, 2, 7)
		} else {
			ws[i] = rword(r, alphaUpper, 2, 5)
		}
	}
	return strings.Join(ws, " ")
}

func rname(r *rand.Rand, national bool) NameSpec {
	n := NameSpec{Primary: rwords(r, national, 1, 2)}
	if r.Intn(5) != 0 {
		n.Secondary = rwords(r, national, 1, 2)
	}
	return n
}

func rdate(r *rand.Rand) string {
	return fmt.Sprintf("%04d%02d%02d", 1930+r.Intn(100), 1+r.Intn(12), 1+r.Intn(28))
}

func rdatetime(r *rand.Rand) string {
	return rdate(r) + fmt.Sprintf("%02d%02d%02d", r.Intn(24), r.Intn(60), r.Intn(60))
}

func rimage(r *rand.Rand) ImageSpec {
	return ImageSpec{Format: []string{"jpeg", "jp2", "j2k"}[r.Intn(3)], Size: 30 + r.Intn(220), Fill: 1 + r.Intn(250)}
}

// rlist is a '<'-separated list value; rarely one component is empty (two fillers in a row).
func rlist(r *rand.Rand, max int, emptyOK bool) []string {
	n := 1 + r.Intn(max)
	out := make([]string, n)
	for i := range out {
		out[i] = rwords(r, true, 1, 2)
	}
	if emptyOK && n >= 2 && r.Intn(25) == 0 {
		out[r.Intn(n-1)] = ""
	}
	return out
}

func rtel(r *rand.Rand) string {
	return "+" + rword(r, digits, 1, 3) + " " + rword(r, digits, 6, 10)
}

func rbytes(r *rand.Rand, n int) []byte {
	b := make([]byte, n)
	r.Read(b)
	return b
}

func rMRZ(r *rand.Rand) MRZFields {
	f := MRZFields{
		Format:       []string{"TD1", "TD2", "TD3"}[r.Intn(3)],
		DocumentCode: []string{"P", "PM", "I", "ID", "AC", "V"}[r.Intn(6)],
		IssuingState: rword(r, alphaUpper, 3, 3),
		Primary:      rwords(r, false, 1, 2),
		Nationality:  rword(r, alphaUpper, 3, 3),
		DateOfBirth:  rdate(r)[2:],
		Sex:          []string{"M", "F", ""}[r.Intn(3)],
		DateOfExpiry: rdate(r)[2:],
	}
	if r.Intn(10) == 0 {
		f.IssuingState = "D"
	}
	if r.Intn(6) != 0 {
		f.Secondary = rwords(r, false, 1, 2)
	}
	f.DocumentNumber = rword(r, alphaNum, 5, 9)
	long := f.Format != "TD3" && r.Intn(4) == 0
	switch f.Format {
	case "TD3":
		if r.Intn(2) == 0 {
			f.OptionalData = rword(r, alphaNum, 1, 14)
		} else {
			f.EmptyOptionalCheckDigitZero = r.Intn(2) == 0
		}
	case "TD2":
		if long {
			f.DocumentNumber = rword(r, alphaNum, 10, 12)
			if len(f.DocumentNumber) < 12 && r.Intn(2) == 0 {
				f.OptionalData = rword(r, alphaNum, 1, 12-len(f.DocumentNumber))
			}
		} else if r.Intn(2) == 0 {
			f.OptionalData = rword(r, alphaNum, 1, 7)
		}
	case "TD1":
		if long {
			f.DocumentNumber = rword(r, alphaNum, 10, 16)
			if r.Intn(2) == 0 {
				f.OptionalData = rword(r, alphaNum, 1, 4)
			}
		} else if r.Intn(2) == 0 {
			f.OptionalData = rword(r, alphaNum, 1, 15)
		}
		if r.Intn(2) == 0 {
			f.OptionalData2 = rword(r, alphaNum, 1, 11)
		}
	}
	// optional data with inner fillers (a printed "AB CD 7"): one letter in four becomes a blank, never at either end
	if len(f.OptionalData) >= 3 && r.Intn(3) == 0 {
		b := []byte(f.OptionalData)
		for i := 1; i < len(b)-1; i++ {
			if r.Intn(4) == 0 && b[i-1] != ' ' {
				b[i] = ' '
			}
		}
		f.OptionalData = string(b)
	}
	return f
}

func rFace(r *rand.Rand) FaceSpec {
	f := FaceSpec{
		Gender: r.Intn(3), EyeColour: r.Intn(8), HairColour: r.Intn(8), FeatureMask: r.Intn(1 << 24), Expression: r.Intn(8),
		Pose: [3]int{r.Intn(181), r.Intn(181), r.Intn(181)}, PoseUncertainty: [3]int{r.Intn(101), r.Intn(101), r.Intn(101)},
		FaceImageType: r.Intn(3), Width: 1 + r.Intn(1000), Height: 1 + r.Intn(1000), ColourSpace: r.Intn(5), SourceType: r.Intn(8),
		DeviceType: r.Intn(1 << 16), Quality: r.Intn(101), Image: rimage(r),
	}
	if f.Image.Format != "jpeg" {
		f.ImageDataType = 1
	}
	for i, n := 0, r.Intn(4); i < n; i++ {
		f.FeaturePoints = append(f.FeaturePoints, FeaturePointSpec{Type: 1, Major: 1 + r.Intn(12), Minor: 1 + r.Intn(15), X: r.Intn(1 << 16), Y: r.Intn(1 << 16)})
	}
	return f
}

func rHeader(r *rand.Rand, formatType []byte) BHTSpec {
	h := BHTSpec{FormatOwner: HexBytes{0x01, 0x01}, FormatType: formatType}
	if r.Intn(2) == 0 {
		h.ICAOHeaderVersion = HexBytes{0x01, 0x01}
	}
	if r.Intn(2) == 0 {
		h.BiometricType = HexBytes{0x02}
	}
	if r.Intn(2) == 0 {
		h.BiometricSubType = HexBytes{0x00}
	}
	if r.Intn(3) == 0 {
		h.CreationDateTime = encodeDate(rdatetime(r), true)
	}
	if r.Intn(3) == 0 {
		h.ValidityPeriod = cat(encodeDate(rdate(r), true), encodeDate(rdate(r), true))
	}
	if r.Intn(3) == 0 {
		h.Creator = rbytes(r, 2)
	}
	return h
}

func rRep39794(r *rand.Rand, id int) Rep39794Spec {
	rep := Rep39794Spec{ID: id, Image: rimage(r), ImageDataFormat: 2}
	if rep.Image.Format != "jpeg" {
		rep.ImageDataFormat = 3
	}
	if r.Intn(2) == 0 {
		rep.FaceImageKind2D = ip(r.Intn(4))
	}
	if r.Intn(2) == 0 {
		rep.ImageSize = &[2]int{1 + r.Intn(2000), 1 + r.Intn(2000)}
	}
	if r.Intn(2) == 0 {
		rep.ColourSpace = ip(r.Intn(6))
	}
	if r.Intn(2) == 0 {
		dt := &DateTime39794{Year: 2000 + r.Intn(30)}
		if r.Intn(4) != 0 {
			dt.Month = ip(1 + r.Intn(12))
			if r.Intn(4) != 0 {
				dt.Day = ip(1 + r.Intn(28))
				if r.Intn(2) == 0 {
					dt.Hour, dt.Minute, dt.Second = ip(r.Intn(24)), ip(r.Intn(60)), ip(r.Intn(60))
					if r.Intn(2) == 0 {
						dt.Millisecond = ip(r.Intn(1000))
					}
				}
			}
		}
		rep.CaptureDateTime = dt
	}
	if r.Intn(4) == 0 {
		rep.SessionID = ip(1 + r.Intn(1000))
	}
	if r.Intn(6) == 0 {
		rep.DerivedFrom = ip(1 + r.Intn(5))
	}
	return rep
}

func rSecInfo(r *rand.Rand, typ string) SecInfoSpec {
	cipher := func(min int) int { return min + r.Intn(5-min) }
	optID := func() *int64 {
		if r.Intn(2) == 0 {
			return nil
		}
		return i64p(int64(r.Intn(40)))
	}
	switch typ {
	case "pace":
		m := []int{1, 2, 3, 4, 6}[r.Intn(5)]
		c := cipher(1)
		if m == 6 {
			c = cipher(2)
		}
		return SecInfoSpec{Type: typ, OID: fmt.Sprintf("%s.%d.%d", OIDPACE, m, c), Version: 2, ParameterID: optID()}
	case "paceDomain":
		m := []int{1, 2, 3, 4, 6}[r.Intn(5)]
		k := syntheticSPKI([]string{"ec", "dh", "ec-explicit"}[r.Intn(3)], 0, r.Intn(1000))
		return SecInfoSpec{Type: typ, OID: fmt.Sprintf("%s.%d", OIDPACE, m), DomainParameter: &k.Alg, ParameterID: optID()}
	case "chipAuth":
		return SecInfoSpec{Type: typ, OID: fmt.Sprintf("%s.%d.%d", OIDCA, 1+r.Intn(2), cipher(1)), Version: 1, KeyID: optID()}
	case "chipAuthPublicKey":
		m := 1 + r.Intn(2)
		alg := "dh"
		if m == 2 {
			alg = []string{"ec", "ec-explicit"}[r.Intn(2)]
		}
		return SecInfoSpec{Type: typ, OID: fmt.Sprintf("%s.%d", OIDPK, m), PublicKey: syntheticSPKI(alg, 0, r.Intn(1000)), KeyID: optID()}
	case "activeAuth":
		return SecInfoSpec{Type: typ, OID: OIDAA, Version: 1, SignatureAlgorithm: fmt.Sprintf("%s.%d", OIDECDSA, 1+r.Intn(5))}
	case "terminalAuth":
		s := SecInfoSpec{Type: typ, OID: OIDTA, Version: 1}
		if r.Intn(2) == 0 {
			s.EFCVCA = &FileIDSpec{FID: HexBytes{0x01, 0x1C}}
			if r.Intn(2) == 0 {
				s.EFCVCA.SFID = HexBytes{0x1C}
			}
		}
		return s
	case "efDir":
		return SecInfoSpec{Type: typ, OID: OIDEFDIR, EFDir: der(0x61, der(0x4F, []byte{0xA0, 0, 0, 2, 0x47, 0x10, 0x01}))}
	default:
		body := derInt(int64(r.Intn(100)))
		if r.Intn(2) == 0 {
			body = append(body, derOctets(rbytes(r, 1+r.Intn(8)))...)
		}
		oid := []string{"1.3.6.1.4.1.99999.1", oidBSI + ".2.2.5.2.3", oidBSI + ".2.2.6." + fmt.Sprint(1+r.Intn(3)), "2.23.136.1.1.99"}[r.Intn(4)]
		return SecInfoSpec{Type: "unknown", OID: oid, Body: body}
	}
}

var secInfoTypes = []string{"pace", "paceDomain", "chipAuth", "chipAuthPublicKey", "activeAuth", "terminalAuth", "efDir", "unknown"}

var hashAlgs = []struct {
	oid string
	n   int
}{
	{"1.3.14.3.2.26", 20}, {"2.16.840.1.101.3.4.2.4", 28}, {"2.16.840.1.101.3.4.2.1", 32}, {"2.16.840.1.101.3.4.2.2", 48}, {"2.16.840.1.101.3.4.2.3", 64},
}

var optionalDGs = []int{3, 4, 5, 6, 7, 8, 9, 10, 11, 12, 13, 14, 15, 16}

// RandomSpec draws a well-formed file description of the given kind.
func RandomSpec(kind string, r *rand.Rand) FileSpec {
	s := FileSpec{Kind: kind}
	opt := func(f func()) {
		if r.Intn(2) == 0 {
			f()
		}
	}
	switch kind {
	case "DG1":
		f := rMRZ(r)
		s.DG1 = &DG1Spec{Fields: &f}
	case "DG2":
		d := &DG2Spec{}
		for i, n := 0, 1+r.Intn(3); i < n; i++ {
			if r.Intn(3) != 0 {
				rec := &FaceRecordSpec{}
				for k, m := 0, 1+r.Intn(3); k < m; k++ {
					rec.Faces = append(rec.Faces, rFace(r))
				}
				d.Templates = append(d.Templates, BITSpec{Header: rHeader(r, HexBytes{0x00, 0x08}), ISO19794: rec})
			} else {
				d.Templates = append(d.Templates, BITSpec{Header: rHeader(r, HexBytes{0x00, 0x1B}),
					ISO39794: &Face39794Spec{Generation: 3, Year: 2019, Representations: []Rep39794Spec{rRep39794(r, i+1)}}})
			}
		}
		s.DG2 = d
	case "DG7":
		d := &DG7Spec{}
		for i, n := 0, 1+r.Intn(3); i < n; i++ {
			d.Images = append(d.Images, rimage(r))
		}
		s.DG7 = d
	case "DG11":
		d := &DG11Spec{}
		opt(func() { n := rname(r, true); d.NameOfHolder = &n })
		opt(func() {
			for i, n := 0, 1+r.Intn(3); i < n; i++ {
				d.OtherNames = append(d.OtherNames, rname(r, true))
			}
		})
		opt(func() { d.PersonalNumber = sp(rword(r, alphaNum, 4, 14)) })
		opt(func() { d.FullDateOfBirth = sp(rdate(r)) })
		opt(func() { d.PlaceOfBirth = rlist(r, 3, true) })
		opt(func() { d.Address = rlist(r, 4, true) })
		opt(func() { d.Telephone = sp(rtel(r)) })
		opt(func() { d.Profession = sp(rwords(r, true, 1, 3)) })
		opt(func() { d.Title = sp(rwords(r, true, 1, 2)) })
		opt(func() { d.PersonalSummary = sp(rwords(r, true, 2, 6)) })
		opt(func() { im := rimage(r); d.ProofOfCitizenship = &im })
		opt(func() {
			for i, n := 0, 1+r.Intn(3); i < n; i++ {
				d.OtherValidTDNumbers = append(d.OtherValidTDNumbers, rword(r, alphaNum, 6, 9))
			}
		})
		opt(func() { d.CustodyInformation = sp(rwords(r, true, 1, 4)) })
		s.DG11 = d
	case "DG12":
		d := &DG12Spec{}
		opt(func() { d.IssuingAuthority = sp(rwords(r, true, 1, 4)) })
		opt(func() { d.DateOfIssue = sp(rdate(r)) })
		opt(func() {
			for i, n := 0, 1+r.Intn(3); i < n; i++ {
				d.OtherPersons = append(d.OtherPersons, rname(r, true))
			}
		})
		opt(func() { d.EndorsementsAndObservations = sp(rwords(r, true, 1, 6)) })
		opt(func() { d.TaxExitRequirements = sp(rwords(r, true, 1, 4)) })
		opt(func() { im := rimage(r); d.ImageFront = &im })
		opt(func() { im := rimage(r); d.ImageRear = &im })
		opt(func() { d.DateTimeOfPersonalization = sp(rdatetime(r)) })
		opt(func() { d.PersonalizationSystemSerial = sp(rword(r, alphaNum, 4, 16)) })
		s.DG12 = d
	case "DG13":
		s.DG13 = &DG13Spec{Content: rbytes(r, r.Intn(300))}
	case "DG14", "CardAccess", "CardSecurity":
		d := &SecInfosSpec{}
		for i, n := 0, 1+r.Intn(6); i < n; i++ {
			d.Infos = append(d.Infos, rSecInfo(r, secInfoTypes[r.Intn(len(secInfoTypes))]))
		}
		s.SecurityInfos = d
	case "DG15":
		if r.Intn(2) == 0 {
			s.DG15 = &DG15Spec{Alg: "rsa", Bits: []int{1024, 1536, 2048}[r.Intn(3)], Seed: r.Intn(1000)}
		} else {
			s.DG15 = &DG15Spec{Alg: []string{"ec", "ec-explicit"}[r.Intn(2)], Bits: []int{224, 256, 257, 384, 521}[r.Intn(5)], Seed: r.Intn(1000)}
		}
	case "DG16":
		d := &DG16Spec{}
		for i, n := 0, 1+r.Intn(3); i < n; i++ {
			d.Persons = append(d.Persons, PersonSpec{DateRecorded: rdate(r), Name: rname(r, true), Telephone: rtel(r), Address: rlist(r, 4, true)})
		}
		s.DG16 = d
	case "COM":
		c := &COMSpec{LDSVersion: []string{"0107", "0108"}[r.Intn(2)], UnicodeVersion: []string{"040000", "050200"}[r.Intn(2)], Tags: []int{0x61, 0x75}}
		for _, n := range optionalDGs {
			if r.Intn(3) == 0 {
				c.Tags = append(c.Tags, int(DGTag(n)))
			}
		}
		s.COM = c
	case "SOD":
		h := hashAlgs[r.Intn(len(hashAlgs))]
		d := &SODSpec{HashAlgorithm: AlgIDSpec{OID: h.oid}}
		if r.Intn(2) == 0 {
			d.HashAlgorithm.Params = derNull()
		}
		d.Hashes = []DGHashSpec{{1, rbytes(r, h.n)}, {2, rbytes(r, h.n)}}
		for _, n := range optionalDGs {
			if r.Intn(3) == 0 {
				d.Hashes = append(d.Hashes, DGHashSpec{n, rbytes(r, h.n)})
			}
		}
		if r.Intn(2) == 0 {
			d.Version = 1
			d.LDSVersion, d.UnicodeVersion = sp("0108"), sp("040000")
		}
		s.SOD = d
	default:
		panic("lds: unknown kind " + kind)
	}
	return s
}

// RandomOpts draws encoding options.
func RandomOpts(r *rand.Rand) EncodeOpts {
	o := EncodeOpts{BCDDates: r.Intn(2) == 0}
	if r.Intn(3) == 0 {
		o.LengthForm = 1 + r.Intn(2)
	}
	if r.Intn(2) == 0 {
		o.Permute = 1 + r.Int63n(1<<30)
		o.TagListOnly = r.Intn(3) == 0
	}
	return o
}
