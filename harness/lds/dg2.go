package lds

import (
	"encoding/binary"
	"fmt"
)

// DG2 (Doc 9303-10 §4.7.2):
//
//	75 { 7F61 { 02 01 n, 7F60 { A1 { 80 81 82 83 85 86 87 88 }, 5F2E | 7F2E } x n } }
//
// 5F2E holds an ISO/IEC 19794-5:2005 face image record, 7F2E an ISO/IEC 39794-5 block
// (inside the [1] alternative of the biometric data block, as the ICAO application profile
// prescribes for face data).

var bhtTags = []struct {
	tag uint32
	key string
}{
	{0x80, "icaoHeaderVersion"}, {0x81, "biometricType"}, {0x82, "biometricSubType"}, {0x83, "creationDateTime"},
	{0x85, "validityPeriod"}, {0x86, "pid"}, {0x87, "formatOwner"}, {0x88, "formatType"},
}

func (h *BHTSpec) byTag(tag uint32) HexBytes {
	switch tag {
	case 0x80:
		return h.ICAOHeaderVersion
	case 0x81:
		return h.BiometricType
	case 0x82:
		return h.BiometricSubType
	case 0x83:
		return h.CreationDateTime
	case 0x85:
		return h.ValidityPeriod
	case 0x86:
		return h.Creator
	case 0x87:
		return h.FormatOwner
	case 0x88:
		return h.FormatType
	}
	return nil
}

func encodeDG2(d *DG2Spec, opts EncodeOpts) ([]byte, error) {
	lf := opts.LengthForm
	n := len(d.Templates)
	if n < 1 || n > 9 {
		return nil, fmt.Errorf("lds: DG2 needs 1..9 biometric information templates")
	}
	group := tlvF(lf, 0x02, []byte{byte(n)})
	for i := range d.Templates {
		t := &d.Templates[i]
		var bht []byte
		for _, bt := range bhtTags {
			if v := t.Header.byTag(bt.tag); v != nil {
				bht = append(bht, tlvF(lf, bt.tag, v)...)
			}
		}
		var bdb []byte
		switch {
		case t.ISO19794 != nil && t.ISO39794 == nil:
			rec, err := t.ISO19794.encode()
			if err != nil {
				return nil, err
			}
			bdb = tlvF(lf, 0x5F2E, rec)
		case t.ISO39794 != nil && t.ISO19794 == nil:
			bdb = tlvF(lf, 0x7F2E, t.ISO39794.encode())
		default:
			return nil, fmt.Errorf("lds: template %d needs exactly one of iso19794 / iso39794", i+1)
		}
		group = append(group, tlvF(lf, 0x7F60, tlvF(lf, 0xA1, bht), bdb)...)
	}
	return tlvF(lf, 0x75, tlvF(lf, 0x7F61, group)), nil
}

func expectedDG2(d *DG2Spec) (View, error) {
	var all []any
	var tv []any
	for i := range d.Templates {
		t := &d.Templates[i]
		hv := View{}
		for _, bt := range bhtTags {
			if v := t.Header.byTag(bt.tag); v != nil {
				hv[bt.key] = hx(v)
			}
		}
		x := View{"header": hv}
		if t.ISO19794 != nil {
			x["encoding"] = "iso19794"
			x["iso19794"] = t.ISO19794.view()
			for _, f := range t.ISO19794.Faces {
				all = append(all, hx(f.Image.Bytes()))
			}
		} else if t.ISO39794 != nil {
			x["encoding"] = "iso39794"
			x["iso39794"] = t.ISO39794.view()
			for _, r := range t.ISO39794.Representations {
				all = append(all, hx(r.Image.Bytes()))
			}
		} else {
			return nil, fmt.Errorf("lds: template %d is empty", i+1)
		}
		tv = append(tv, x)
	}
	return View{"images": all, "templates": tv}, nil
}

func decodeDG2(raw []byte) (View, error) {
	root, err := readOne(raw, 0x75)
	if err != nil {
		return nil, err
	}
	group, err := readOne(root.val, 0x7F61)
	if err != nil {
		return nil, err
	}
	bits, err := countedList(group.val, 0x7F60, 1, 9)
	if err != nil {
		return nil, err
	}
	var all, tv []any
	for _, bit := range bits {
		items, err := readAll(bit)
		if err != nil {
			return nil, err
		}
		if len(items) != 2 || items[0].tag != 0xA1 {
			return nil, fmt.Errorf("lds: biometric information template must be A1 followed by 5F2E/7F2E")
		}
		hv := View{}
		hs, err := readAll(items[0].val)
		if err != nil {
			return nil, err
		}
	next:
		for _, h := range hs {
			for _, bt := range bhtTags {
				if bt.tag == h.tag {
					if _, dup := hv[bt.key]; dup {
						return nil, fmt.Errorf("lds: header element %X twice", h.tag)
					}
					hv[bt.key] = hx(h.val)
					continue next
				}
			}
			return nil, fmt.Errorf("lds: unknown biometric header element %X", h.tag)
		}
		x := View{"header": hv}
		switch items[1].tag {
		case 0x5F2E:
			rv, imgs, err := decode19794(items[1].val)
			if err != nil {
				return nil, err
			}
			x["encoding"] = "iso19794"
			x["iso19794"] = rv
			all = append(all, hexList(imgs)...)
		case 0x7F2E:
			rv, imgs, err := decode39794(items[1].val)
			if err != nil {
				return nil, err
			}
			x["encoding"] = "iso39794"
			x["iso39794"] = rv
			all = append(all, hexList(imgs)...)
		default:
			return nil, fmt.Errorf("lds: biometric data block has tag %X", items[1].tag)
		}
		tv = append(tv, x)
	}
	return View{"images": all, "templates": tv}, nil
}

// ---------------------------------------------------------------------------------------
// ISO/IEC 19794-5:2005 face image record (big endian):
//
//	facial record header  14: "FAC\0" "010\0" recordLength(4) numberOfFacialImages(2)
//	per image:
//	  facial information  20: blockLength(4) numberOfFeaturePoints(2) gender eyeColour hairColour
//	                          featureMask(3) expression(2) poseAngle(3) poseAngleUncertainty(3)
//	  feature point        8: type(1) code(1: major<<4|minor) x(2) y(2) reserved(2)
//	  image information   12: faceImageType imageDataType width(2) height(2) colourSpace sourceType
//	                          deviceType(2) quality(2)
//	  image data
//
// blockLength covers facial information, feature points, image information and image data.
// ---------------------------------------------------------------------------------------

func (r *FaceRecordSpec) encode() ([]byte, error) {
	if len(r.Faces) < 1 {
		return nil, fmt.Errorf("lds: face record without images")
	}
	var body []byte
	for _, f := range r.Faces {
		img := f.Image.Bytes()
		blk := make([]byte, 20, 32+8*len(f.FeaturePoints)+len(img))
		binary.BigEndian.PutUint32(blk[0:], uint32(32+8*len(f.FeaturePoints)+len(img)))
		binary.BigEndian.PutUint16(blk[4:], uint16(len(f.FeaturePoints)))
		blk[6], blk[7], blk[8] = byte(f.Gender), byte(f.EyeColour), byte(f.HairColour)
		blk[9], blk[10], blk[11] = byte(f.FeatureMask>>16), byte(f.FeatureMask>>8), byte(f.FeatureMask)
		blk[12], blk[13] = byte(f.Expression>>8), byte(f.Expression)
		for k := 0; k < 3; k++ {
			blk[14+k] = byte(f.Pose[k])
			blk[17+k] = byte(f.PoseUncertainty[k])
		}
		for _, p := range f.FeaturePoints {
			blk = append(blk, byte(p.Type), byte(p.Major<<4|p.Minor&0xf), byte(p.X>>8), byte(p.X), byte(p.Y>>8), byte(p.Y), 0, 0)
		}
		blk = append(blk, byte(f.FaceImageType), byte(f.ImageDataType), byte(f.Width>>8), byte(f.Width), byte(f.Height>>8), byte(f.Height),
			byte(f.ColourSpace), byte(f.SourceType), byte(f.DeviceType>>8), byte(f.DeviceType), byte(f.Quality>>8), byte(f.Quality))
		blk = append(blk, img...)
		body = append(body, blk...)
	}
	hdr := []byte{'F', 'A', 'C', 0, '0', '1', '0', 0, 0, 0, 0, 0, 0, 0}
	binary.BigEndian.PutUint32(hdr[8:], uint32(14+len(body)))
	binary.BigEndian.PutUint16(hdr[12:], uint16(len(r.Faces)))
	return append(hdr, body...), nil
}

func (r *FaceRecordSpec) view() View {
	total := 14
	var faces []any
	for _, f := range r.Faces {
		img := f.Image.Bytes()
		bl := 32 + 8*len(f.FeaturePoints) + len(img)
		total += bl
		fps := []any{}
		for _, p := range f.FeaturePoints {
			fps = append(fps, View{"type": p.Type, "majorPoint": p.Major, "minorPoint": p.Minor, "x": p.X, "y": p.Y})
		}
		faces = append(faces, View{
			"blockLength": bl, "numberOfFeaturePoints": len(f.FeaturePoints),
			"gender": f.Gender, "eyeColour": f.EyeColour, "hairColour": f.HairColour,
			"featureMask":     hx([]byte{byte(f.FeatureMask >> 16), byte(f.FeatureMask >> 8), byte(f.FeatureMask)}),
			"expression":      hx([]byte{byte(f.Expression >> 8), byte(f.Expression)}),
			"pose":            hx([]byte{byte(f.Pose[0]), byte(f.Pose[1]), byte(f.Pose[2])}),
			"poseUncertainty": hx([]byte{byte(f.PoseUncertainty[0]), byte(f.PoseUncertainty[1]), byte(f.PoseUncertainty[2])}),
			"featurePoints":   fps,
			"faceImageType":   f.FaceImageType, "imageDataType": f.ImageDataType, "width": f.Width, "height": f.Height,
			"colourSpace": f.ColourSpace, "sourceType": f.SourceType, "deviceType": f.DeviceType, "quality": f.Quality,
			"image": hx(img),
		})
	}
	return View{"formatId": "46414300", "versionId": "30313000", "recordLength": total, "numberOfFaces": len(r.Faces), "faces": faces}
}

func decode19794(b []byte) (View, [][]byte, error) {
	if len(b) < 14 {
		return nil, nil, fmt.Errorf("lds: face record shorter than its header")
	}
	if string(b[0:4]) != "FAC\x00" {
		return nil, nil, fmt.Errorf("lds: face record format identifier %x", b[0:4])
	}
	if string(b[4:8]) != "010\x00" {
		return nil, nil, fmt.Errorf("lds: face record version %x", b[4:8])
	}
	recLen := int(binary.BigEndian.Uint32(b[8:]))
	n := int(binary.BigEndian.Uint16(b[12:]))
	if recLen != len(b) {
		return nil, nil, fmt.Errorf("lds: face record length %d, block has %d octets", recLen, len(b))
	}
	if n < 1 {
		return nil, nil, fmt.Errorf("lds: face record without images")
	}
	p := b[14:]
	var faces []any
	var imgs [][]byte
	for i := 0; i < n; i++ {
		if len(p) < 20 {
			return nil, nil, fmt.Errorf("lds: facial information block %d truncated", i+1)
		}
		bl := int(binary.BigEndian.Uint32(p[0:]))
		nfp := int(binary.BigEndian.Uint16(p[4:]))
		if bl < 32+8*nfp || bl > len(p) {
			return nil, nil, fmt.Errorf("lds: facial block length %d does not fit", bl)
		}
		blk := p[:bl]
		p = p[bl:]
		fps := []any{}
		q := blk[20:]
		for k := 0; k < nfp; k++ {
			fps = append(fps, View{"type": int(q[0]), "majorPoint": int(q[1] >> 4), "minorPoint": int(q[1] & 0xf),
				"x": int(binary.BigEndian.Uint16(q[2:])), "y": int(binary.BigEndian.Uint16(q[4:]))})
			q = q[8:]
		}
		img := q[12:]
		if !looksLikeImage(img) {
			return nil, nil, fmt.Errorf("lds: face image %d is neither JPEG nor JPEG 2000", i+1)
		}
		imgs = append(imgs, img)
		faces = append(faces, View{
			"blockLength": bl, "numberOfFeaturePoints": nfp,
			"gender": int(blk[6]), "eyeColour": int(blk[7]), "hairColour": int(blk[8]),
			"featureMask": hx(blk[9:12]), "expression": hx(blk[12:14]), "pose": hx(blk[14:17]), "poseUncertainty": hx(blk[17:20]),
			"featurePoints": fps,
			"faceImageType": int(q[0]), "imageDataType": int(q[1]),
			"width": int(binary.BigEndian.Uint16(q[2:])), "height": int(binary.BigEndian.Uint16(q[4:])),
			"colourSpace": int(q[6]), "sourceType": int(q[7]),
			"deviceType": int(binary.BigEndian.Uint16(q[8:])), "quality": int(binary.BigEndian.Uint16(q[10:])),
			"image": hx(img),
		})
	}
	if len(p) != 0 {
		return nil, nil, fmt.Errorf("lds: %d octets after the last facial image", len(p))
	}
	return View{"formatId": hx(b[0:4]), "versionId": hx(b[4:8]), "recordLength": recLen, "numberOfFaces": n, "faces": faces}, imgs, nil
}

// ---------------------------------------------------------------------------------------
// ISO/IEC 39794-5 (ASN.1 module with AUTOMATIC TAGS, tagged binary encoding):
//
//	7F2E { A1 {                                  -- face alternative of the biometric data block
//	  65 {                                       -- FaceImageDataBlock ::= [APPLICATION 5] SEQUENCE
//	    A0 { 80 generation, 81 year }            -- versionBlock
//	    A1 {                                     -- representationBlocks SEQUENCE OF
//	      30 {                                   -- RepresentationBlock
//	        80 representationId
//	        A1 { A0 { A0 {                       -- imageRepresentation / base / imageRepresentation2DBlock
//	          80 representationData2D            -- the image
//	          A1 {                               -- imageInformation2DBlock
//	            A0 { 80 code }                   -- imageDataFormat (CHOICE code / extension)
//	            A1 { 80 code }                   -- faceImageKind2D        OPTIONAL
//	            A7 { 80 width, 81 height }       -- imageSizeBlock         OPTIONAL
//	            A9 { 80 code }                   -- imageColourSpace       OPTIONAL
//	          } } } }
//	        A2 { 80 year 81 month 82 day 83 hour 84 minute 85 second 86 millisecond }  -- captureDateTimeBlock OPTIONAL
//	        85 sessionId, 86 derivedFrom         -- OPTIONAL
//	      } ... } } } }
//
// Choice-typed components carry an explicit wrapper, everything else is implicitly tagged.
// ---------------------------------------------------------------------------------------

func ctxInt(n int, v int) []byte { return der(uint32(0x80+n), derIntContent(int64(v))) }

func (d *DateTime39794) encode() []byte {
	out := ctxInt(0, d.Year)
	for i, p := range []*int{d.Month, d.Day, d.Hour, d.Minute, d.Second, d.Millisecond} {
		if p != nil {
			out = append(out, ctxInt(i+1, *p)...)
		}
	}
	return der(0xA2, out)
}

func (r *Rep39794Spec) blocks() (format, kind, size, colour []byte) {
	format = der(0xA0, ctxInt(0, r.ImageDataFormat))
	if r.FaceImageKind2D != nil {
		kind = der(0xA1, ctxInt(0, *r.FaceImageKind2D))
	}
	if r.ImageSize != nil {
		size = der(0xA7, ctxInt(0, r.ImageSize[0]), ctxInt(1, r.ImageSize[1]))
	}
	if r.ColourSpace != nil {
		colour = der(0xA9, ctxInt(0, *r.ColourSpace))
	}
	return
}

func (f *Face39794Spec) encode() []byte {
	var reps []byte
	for i := range f.Representations {
		r := &f.Representations[i]
		format, kind, size, colour := r.blocks()
		info := der(0xA1, format, kind, size, colour)
		img2d := der(0xA0, der(0x80, r.Image.Bytes()), info)
		rep := cat(ctxInt(0, r.ID), der(0xA1, der(0xA0, img2d)))
		if r.CaptureDateTime != nil {
			rep = append(rep, r.CaptureDateTime.encode()...)
		}
		if r.SessionID != nil {
			rep = append(rep, ctxInt(5, *r.SessionID)...)
		}
		if r.DerivedFrom != nil {
			rep = append(rep, ctxInt(6, *r.DerivedFrom)...)
		}
		reps = append(reps, derSeq(rep)...)
	}
	block := der(0x65, der(0xA0, ctxInt(0, f.Generation), ctxInt(1, f.Year)), der(0xA1, reps))
	return der(0xA1, block)
}

func optInt(p *int) int {
	if p == nil {
		return 0
	}
	return *p
}

func (f *Face39794Spec) view() View {
	var reps []any
	for i := range f.Representations {
		r := &f.Representations[i]
		format, kind, size, colour := r.blocks()
		rv := View{"representationId": r.ID, "image": hx(r.Image.Bytes()), "imageDataFormat": hx(format),
			"sessionId": optInt(r.SessionID), "derivedFrom": optInt(r.DerivedFrom)}
		if kind != nil {
			rv["faceImageKind2D"] = hx(kind)
		}
		if colour != nil {
			rv["imageColourSpace"] = hx(colour)
		}
		w, h := 0, 0
		if size != nil {
			w, h = r.ImageSize[0], r.ImageSize[1]
		}
		rv["imageSize"] = View{"width": w, "height": h}
		dt := DateTime39794{}
		if r.CaptureDateTime != nil {
			dt = *r.CaptureDateTime
		}
		rv["captureDateTime"] = View{"year": dt.Year, "month": optInt(dt.Month), "day": optInt(dt.Day), "hour": optInt(dt.Hour),
			"minute": optInt(dt.Minute), "second": optInt(dt.Second), "millisecond": optInt(dt.Millisecond)}
		reps = append(reps, rv)
	}
	return View{"generation": f.Generation, "year": f.Year, "representations": reps}
}

// fields reads the components of an automatically tagged SEQUENCE into a map by context tag
// number; components must appear in ascending tag order and at most once.
func fields39794(b []byte) (map[int]item, error) {
	items, err := readAll(b)
	if err != nil {
		return nil, err
	}
	out := map[int]item{}
	last := -1
	for _, it := range items {
		if it.tag&0xC0 != 0x80 || it.tag > 0xFF || it.tag&0x1f == 0x1f {
			return nil, fmt.Errorf("lds: unexpected tag %X in ISO/IEC 39794 block", it.tag)
		}
		n := int(it.tag & 0x1f)
		if n <= last {
			return nil, fmt.Errorf("lds: component [%d] out of order in ISO/IEC 39794 block", n)
		}
		last = n
		out[n] = it
	}
	return out, nil
}

func need(m map[int]item, n int, cons bool, what string) (item, error) {
	it, ok := m[n]
	if !ok {
		return it, fmt.Errorf("lds: ISO/IEC 39794 %s missing", what)
	}
	if it.cons != cons {
		return it, fmt.Errorf("lds: ISO/IEC 39794 %s has the wrong form", what)
	}
	return it, nil
}

func intField(m map[int]item, n int, required bool, what string) (int, error) {
	it, ok := m[n]
	if !ok {
		if required {
			return 0, fmt.Errorf("lds: ISO/IEC 39794 %s missing", what)
		}
		return 0, nil
	}
	if it.cons {
		return 0, fmt.Errorf("lds: ISO/IEC 39794 %s has the wrong form", what)
	}
	v, err := parseIntContent(it.val)
	return int(v), err
}

func decode39794(b []byte) (View, [][]byte, error) {
	alt, err := readOne(b, 0xA1)
	if err != nil {
		return nil, nil, err
	}
	blk, err := readOne(alt.val, 0x65)
	if err != nil {
		return nil, nil, err
	}
	top, err := fields39794(blk.val)
	if err != nil {
		return nil, nil, err
	}
	vb, err := need(top, 0, true, "versionBlock")
	if err != nil {
		return nil, nil, err
	}
	vf, err := fields39794(vb.val)
	if err != nil {
		return nil, nil, err
	}
	gen, err := intField(vf, 0, true, "generation")
	if err != nil {
		return nil, nil, err
	}
	year, err := intField(vf, 1, true, "year")
	if err != nil {
		return nil, nil, err
	}
	rb, err := need(top, 1, true, "representationBlocks")
	if err != nil {
		return nil, nil, err
	}
	repItems, err := readAll(rb.val)
	if err != nil {
		return nil, nil, err
	}
	if len(repItems) < 1 {
		return nil, nil, fmt.Errorf("lds: ISO/IEC 39794 block without representation")
	}
	var reps []any
	var imgs [][]byte
	for _, ri := range repItems {
		if ri.tag != 0x30 {
			return nil, nil, fmt.Errorf("lds: representation block has tag %X", ri.tag)
		}
		rf, err := fields39794(ri.val)
		if err != nil {
			return nil, nil, err
		}
		id, err := intField(rf, 0, true, "representationId")
		if err != nil {
			return nil, nil, err
		}
		ir, err := need(rf, 1, true, "imageRepresentation")
		if err != nil {
			return nil, nil, err
		}
		base, err := readOne(ir.val, 0xA0)
		if err != nil {
			return nil, nil, fmt.Errorf("lds: imageRepresentation is not the base alternative: %w", err)
		}
		b2d, err := readOne(base.val, 0xA0)
		if err != nil {
			return nil, nil, err
		}
		df, err := fields39794(b2d.val)
		if err != nil {
			return nil, nil, err
		}
		data, err := need(df, 0, false, "representationData2D")
		if err != nil {
			return nil, nil, err
		}
		if !looksLikeImage(data.val) {
			return nil, nil, fmt.Errorf("lds: ISO/IEC 39794 image is neither JPEG nor JPEG 2000")
		}
		info, err := need(df, 1, true, "imageInformation2DBlock")
		if err != nil {
			return nil, nil, err
		}
		inf, err := fields39794(info.val)
		if err != nil {
			return nil, nil, err
		}
		format, err := need(inf, 0, true, "imageDataFormat")
		if err != nil {
			return nil, nil, err
		}
		rv := View{"representationId": id, "image": hx(data.val), "imageDataFormat": hx(format.full)}
		if it, ok := inf[1]; ok {
			rv["faceImageKind2D"] = hx(it.full)
		}
		if it, ok := inf[9]; ok {
			rv["imageColourSpace"] = hx(it.full)
		}
		w, h := 0, 0
		if it, ok := inf[7]; ok {
			sf, err := fields39794(it.val)
			if err != nil {
				return nil, nil, err
			}
			if w, err = intField(sf, 0, true, "width"); err != nil {
				return nil, nil, err
			}
			if h, err = intField(sf, 1, true, "height"); err != nil {
				return nil, nil, err
			}
		}
		rv["imageSize"] = View{"width": w, "height": h}
		dt := View{"year": 0, "month": 0, "day": 0, "hour": 0, "minute": 0, "second": 0, "millisecond": 0}
		if it, ok := rf[2]; ok {
			tf, err := fields39794(it.val)
			if err != nil {
				return nil, nil, err
			}
			for i, k := range []string{"year", "month", "day", "hour", "minute", "second", "millisecond"} {
				v, err := intField(tf, i, i == 0, k)
				if err != nil {
					return nil, nil, err
				}
				dt[k] = v
			}
		}
		rv["captureDateTime"] = dt
		if rv["sessionId"], err = intField(rf, 5, false, "sessionId"); err != nil {
			return nil, nil, err
		}
		if rv["derivedFrom"], err = intField(rf, 6, false, "derivedFrom"); err != nil {
			return nil, nil, err
		}
		reps = append(reps, rv)
		imgs = append(imgs, data.val)
	}
	return View{"generation": gen, "year": year, "representations": reps}, imgs, nil
}
