// Package sim wires the real gmrtd objects to the chip simulator through the link: helpers shared
// by the per-property drivers (session set-up with pre-installed secure messaging, projections of
// the real state onto the specification's variables).
package sim

import (
	"fmt"
	"math/rand"

	"github.com/gmrtd/gmrtd/cryptoutils"
	"github.com/gmrtd/gmrtd/iso7816"

	"verif/harness/chipsim"
	"verif/harness/link"
)

// Suite names one secure-messaging cipher suite.
type Suite struct {
	Name    string // "3DES", "AES-128", "AES-192", "AES-256"
	Cipher  string // chipsim cipher: "3DES" | "AES"
	Alg     cryptoutils.BlockCipherAlg
	KeyLen  int
	SscLen  int
}

var Suites = []Suite{
	{"3DES", "3DES", cryptoutils.TDES, 16, 8},
	{"AES-128", "AES", cryptoutils.AES, 16, 16},
	{"AES-192", "AES", cryptoutils.AES, 24, 16},
	{"AES-256", "AES", cryptoutils.AES, 32, 16},
}

func SuiteByName(n string) Suite {
	for _, s := range Suites {
		if s.Name == n {
			return s
		}
	}
	panic("unknown suite " + n)
}

// Session is a terminal (real NfcSession) connected to a chip through a link.
type Session struct {
	Chip *chipsim.Chip
	Link *link.Link
	Nfc  *iso7816.NfcSession
	SM   *iso7816.SecureMessaging // nil when plain
	Ssc0 []byte
}

// NewPlain connects a fresh NfcSession to the chip without secure messaging.
func NewPlain(chip *chipsim.Chip) *Session {
	l := link.New(chip)
	return &Session{Chip: chip, Link: l, Nfc: iso7816.NewNfcSession(l)}
}

// InstallSM installs the same keys and counter on both sides (as if BAC/PACE/CA had just
// completed): real SecureMessaging on the terminal, chipsim session on the chip.
func (s *Session) InstallSM(suite Suite, rnd *rand.Rand, ssc []byte) error {
	ksEnc := make([]byte, suite.KeyLen)
	ksMac := make([]byte, suite.KeyLen)
	rnd.Read(ksEnc)
	rnd.Read(ksMac)
	if ssc == nil {
		ssc = make([]byte, suite.SscLen)
	}
	if len(ssc) != suite.SscLen {
		return fmt.Errorf("ssc length %d for suite %s", len(ssc), suite.Name)
	}
	sm, err := iso7816.NewSecureMessaging(suite.Alg, append([]byte{}, ksEnc...), append([]byte{}, ksMac...))
	if err != nil {
		return err
	}
	if err := sm.SetSSC(ssc); err != nil {
		return err
	}
	if err := s.Chip.InstallSM(suite.Cipher, ksEnc, ksMac, ssc); err != nil {
		return err
	}
	s.Nfc.SetSecureMessaging(sm)
	s.SM = sm
	s.Ssc0 = append([]byte{}, ssc...)
	return nil
}
