#!/bin/bash
# tools/seedcheck.sh <ID> <mutant-dir> <pkgdir> [check-ids...]
# Confirms a seeded change in the scratch worktree /tmp/wt/<ID>: (1) suite passes with it, (2) demo fails with it,
# (3) demo passes without it; then runs the named checks (default: <ID>) in tier $TIER (default quick) against the
# mutated worktree (VERIF_REPO) with evidence redirected to a scratch directory. Prints one summary line.
. "$(dirname "$0")/../bin/env.sh"
id="$1"; mdir="$2"; pkg="$3"; shift 3
checks="${*:-$id}"
tier="${TIER:-quick}"
w="${WT:-/tmp/wt/$id}"
out="$mdir/confirm"; mkdir -p "$out"
cd "$w" || exit 2
git checkout -q -- . && git clean -fdq
git apply "$mdir/patch.diff" || { echo "$id $(basename $mdir): PATCH DOES NOT APPLY"; exit 2; }
go build $(go list ./... | grep -v cmd/gmrtd-reader) >"$out/build.txt" 2>&1 || { echo "$id $(basename $mdir): BUILD FAILS"; git checkout -q -- .; exit 2; }
go test -vet=off -count=1 $(go list ./... | grep -v cmd/gmrtd-reader) >"$out/suite_with.txt" 2>&1; suite=$?
cp "$mdir"/*_test.go "$pkg"/ 2>/dev/null
go test $DEMO_FLAGS -vet=off -count=1 "./$pkg/" >"$out/demo_with.txt" 2>&1; dw=$?
git apply -R "$mdir/patch.diff"
go test $DEMO_FLAGS -vet=off -count=1 "./$pkg/" >"$out/demo_without.txt" 2>&1; dwo=$?
git clean -fdq
git apply "$mdir/patch.diff"
res=""
for c in $checks; do
  ev="$out/evidence-$c"; mkdir -p "$ev"
  VERIF_REPO="$w" VERIF_EVIDENCE_DIR="$ev" "$VERIF_ROOT/bin/check" "$c" "$tier" >"$out/check-$c-$tier.txt" 2>&1; rc=$?
  res="$res $c:$tier=rc$rc"
done
git checkout -q -- . && git clean -fdq
echo "$id $(basename $mdir): suite_with=$suite demo_with=$dw demo_without=$dwo checks:$res"
