#!/usr/bin/env python3
"""Regenerates /verif/MANIFEST.json from the table below (single source of truth)."""
import json, os, subprocess
ROOT = os.path.dirname(os.path.dirname(os.path.abspath(__file__)))
ALL = ["C%02d" % i for i in range(1, 21)]

CHECKS = {
 "C17": dict(
  category="model_checking",
  text="Apdu.tla states the ISO 7816-4 encoding rule and an independent parser; TLC proves Parse(Encode(x))=x and minimality for every Nc in 0..65535 against the Ne boundary set and every Ne in 0..65536 against the Nc boundary set (917k states, thorough) and the specified length fields of every such pair are replayed into the real CApdu.Encode; recorded random commands/responses are validated against Trace_Apdu. Exhaustive over lengths is the right level because the function depends only on the two lengths.",
  design_ref="DESIGN.md §6 C17",
  note="Trusts TLC and the transcription of ISO 7816-4 §5.1 in Apdu.tla; data bytes are symbolic in the model (random on the Go side).",
  technique="TLA+ spec (Apdu.tla) model-checked with TLC; TLC-emitted table replayed into CApdu.Encode; recorded lines validated against Trace_Apdu"),
 "C16": dict(
  category="model_checking",
  text="Tlv.tla transcribes X.690 8.1 (identifier, length forms, end-of-contents only inside indefinite contents, exact filling of definite contents) with the library's limits; TLC checks decode(encode(t))=t, idempotence, canonical fixed points and Unwrap/Decode agreement on EVERY byte string up to length 4 (quick) / 5 (thorough) over a 14-octet alphabet containing every behaviour-changing octet, and prints the specified outcome of each string; every row is replayed into the real tlv.Decode/Encode/DecodeEncode/NodeByTagOccur/Unwrap. The re-encoding of EVERY accepted input (also where the specification gives no verdict) must decode again to the same tree. Grammar-generated and mutated inputs up to several hundred bytes plus inputs at the depth/count limits are recorded from the real decoder and validated against Trace_Tlv.",
  design_ref="DESIGN.md §6 C16",
  note="Exhaustive only for short strings over the reduced alphabet; identifier octet 00 outside end-of-contents is a grey zone (no verdict). Trusts TLC and my reading of X.690.",
  technique="TLA+ spec (Tlv.tla) model-checked with TLC; table replay into tlv.Decode; recorded decodes validated against Trace_Tlv"),
 "C18": dict(
  category="model_checking",
  text="Mrz.tla states the 7-3-1 check digit, the TD1/TD2/TD3 field positions, the extended-document-number rule and the MRZ-information construction; TLC generates valid zones of all three layouts (short, 9-character, 10-character, extended document numbers, numbers with an interior filler) and applies every single-character substitution over a reduced alphabet, every adjacent transposition, deletions and insertions (5k zones quick, 217k thorough), checks consistency of must-reject / well-formed and agreement of the key-seed routes on the specification, and prints the outcome of each zone, which is replayed into mrz.MrzDecode and the three password routes. Full-alphabet random zones and arbitrary strings are recorded from the real code and validated against Trace_Mrz.",
  design_ref="DESIGN.md §6 C18",
  note="Zones that are neither must-reject nor well-formed (digits in names, unset dates with '<' check digit, characters outside the alphabet) get no verdict.",
  technique="TLA+ spec (Mrz.tla) model-checked with TLC; mutant table replayed into mrz.MrzDecode / password routes; recorded calls validated against Trace_Mrz"),
 "C02": dict(
  category="model_checking",
  text="Verdict.tla states the gates of the property as predicates on any verdict function and the as-built mapping of document/session.go; TLC enumerates all 432 outcome vectors (PA absent/error/failed/ok x CardSecurity authenticated x AA/PACE-CAM/CA absent/failed/ok x completeness) and checks the gates; each vector is concretised into real document.Session values in 16 (quick) / 256 (thorough) representations and Summary(), VerifiedChipAuthStatus(), ChipAuthProtocolStatus() are checked against the gates. End-to-end half: Session.tla's C02 clauses are checked by TLC on all chip configurations incl. hostile kinds (clone copying all files without keys, clone with its own DG14/DG15 keys, DG14 / DG15 withheld but listed, CardAccess infos not contained in DG14); the hostile configurations (a twelfth in quick, all in thorough) are personalised and read with the real Reader.ReadDocument, the export is verified with the real Verifier, and the verdicts are checked against the clauses.",
  design_ref="DESIGN.md §6 C02",
  note="The product half is exhaustive over the abstract vectors; representations per vector are sampled in quick.",
  technique="TLA+ spec (Verdict.tla) exhaustively enumerated with TLC; every vector replayed into document.Session/DocumentEx.Summary"),
 "C13": dict(
  category="model_checking",
  text="ReadFile.tla models SELECT, the 4-byte header read, the length computation, the read loop with Le = min(maxLe, remaining), the first-block fall-back ladder and the chunk limit, with the chip as a separate process choosing response sizes, caps, Le rejections and short-EF-identifier semantics for P1 bit 8; TLC checks Exact / NotFound / Bounded over the product of file shapes, read sizes and chip behaviours (6M states quick) and termination under fairness; the as-built switch (offsets >= 32768 in P1) must yield the counterexample the known finding names. The real NfcSession.ReadFile is run against the independent chip simulator over the same grid plus seeded random shapes, plain and under 3DES/AES secure messaging; returned bytes are compared with the stored object and every recorded SELECT / READ BINARY / outcome sequence is validated against Trace_ReadFile; SELECT is answered with every status of the classes 61..6F and 9xxx ('not found' only for 6A82 / 6283). ReadSession.tla extends the model to a SESSION of reads (what outlives a ReadFile call: the working Le; link faults at any loop read; ExactEach, ReadableEach, LeMonotone; the designs with a session-level assembly buffer / with the ladder only for the first file must yield their counterexamples): the 56k finished sessions TLC prints (files, settings, fault script, result of every read) are replayed into one real NfcSession (quick: a stratified sample) and every read compared byte for byte with the chip's file and with the specification's result.",
  design_ref="DESIGN.md §6 C13",
  note="Chip behaviours are those of harness/chipsim (ISO 7816-4 READ BINARY semantics); an error outcome is never a C13 violation.",
  technique="TLA+ specs (ReadFile.tla, ReadSession.tla) model-checked with TLC; traces of the real ReadFile against a chip simulator validated against Trace_ReadFile; TLC-generated session histories replayed into the real NfcSession; direct byte comparison"),

 "C01": dict(
  category="model_checking",
  text="PassiveAuth.tla states, over atomic facts about a document and a trust store, the declarative predicate Valid (the property's first sentence), the procedure as built (country pool, hash comparison, per-SignerInfo attribute checks, certificate selection incl. the sole-certificate fall-back, DS and CA extension / validity checks, candidates by key identifier, first success) and Genuine; TLC explores every document within K=3 (quick) / 4 (thorough) single-fact flips of four genuine bases (one / two embedded certificates, cross-signed anchors, card security object, two signer infos) and checks Soundness (accepts => Valid) and Completeness in every state - the flips are exactly the modifications the property's last sentence quantifies over. Binding: ~110 issued scenarios per signature profile (genuine variants, 40 forgeries, probes, master lists) and every-byte mutants of genuine EF.SOD / CardSecurity / DG / anchor bytes are run through the real passiveauth.PassiveAuth / cms.CreateCertPoolFromSignedData; for each input the facts are recomputed from the bytes by the independent verifier and the line (facts, real verdict) is validated against Trace_PassiveAuth: acceptance of a document whose facts do not satisfy Valid is a violation; for master lists the returned pool must contain only certificates of the SIGNED certList (scenarios incl. an unsigned CA spliced into SignedData.certificates and a forged list under an embedded self-signed CA with the trusted root's name); the card security object is judged at its OWN signing time.",
  design_ref="DESIGN.md §6 C01",
  note="Facts (signature verifies under key, digests, validity, extensions) come from harness/pki on Go's math/big and hash functions; name chaining and signer EKU are outside the property statement; probes (verdict not fixed by the standard, e.g. the ECDSA curve fall-back) are informational.",
  technique="TLA+ spec (PassiveAuth.tla) model-checked with TLC over fact flips; issued forgeries and byte mutants run through the real code, facts recomputed independently and validated against Trace_PassiveAuth"),
 "C09": dict(
  category="model_checking",
  text="Same specification as C01, completeness direction: TLC checks Genuine => accepts over the fact space; the issuing PKI generates correctly issued documents over the key-spec matrix (14 covering specs quick, all 149 thorough: RSA PKCS#1 / PSS x sizes x SHA-1..512, ECDSA over P-192..P-521 and brainpool r1 curves, named and explicit) crossed with the validity-irrelevant variants (SID form, LDS v0/v1, indefinite lengths, signing time absent / at the validity limits, extra embedded certificates, cross-signed anchors in both orders, RDN order, string types, SID issuer in another attribute order than the certificate's, repeated attribute types, an expired earlier certificate of the same CSCA key before / after the valid one, card security object incl. one signed by a DS valid only at its own signing time) and the genuine scenarios (encodings, master lists); each is run through the real PassiveAuth, facts recomputed independently, the line validated against Trace_PassiveAuth (Genuine and rejected = violation).",
  design_ref="DESIGN.md §6 C09",
  note="The crypto matrix is executed, not modelled; known finding: eContent as constructed OCTET STRING.",
  technique="TLA+ spec (PassiveAuth.tla, Genuine/Completeness) + issued documents over the profile matrix run through the real code and validated against Trace_PassiveAuth"),
 "C03": dict(
  category="model_checking",
  text="SM.tla models terminal (one action per step of DoAPDU / Decode, check by check), chip (9303-11 9.8) and a Dolev-Yao link adversary with labelled moves (alter / withhold command; short, garbage, unprotected, replay of any seen response, cross-session, outer status, DO value, both statuses, delete / duplicate / re-order / extra data objects, forged DO'87' / DO'85' carrying junk or the cryptogram of an earlier response, in front of the genuine objects or behind DO'8E'); TLC checks Authentic, Lockstep, HonestDelivers exhaustively for the intended design (no counter roll-back; 61k states, modulus 16, 3 exchanges, wrap inside the run) and must find the roll-back/replay counterexample for the as-built switch. Every behaviour of the as-built model with <= 2 adversary moves (8.8k quick, 3 exchanges thorough) is replayed byte for byte into the real NfcSession.DoAPDU against the chip simulator for 3DES / AES-128/192/256 and initial counters incl. carries across every octet boundary and FF..FD: delivered data / status are compared with what the chip produced for that very command, outcome and counter with the model; plus a single-bit sweep over genuine responses of every shape and a sweep of the move 'outer status' over every first status octet.",
  design_ref="DESIGN.md §6 C03",
  note="Symbolic MAC/encryption in the model; chip side is harness/chipsim; known finding: replay accepted after an unprotected response (deliberate counter roll-back).",
  technique="TLA+ spec (SM.tla) model-checked with TLC; TLC-enumerated adversary behaviours replayed into NfcSession.DoAPDU against an independent chip; bit-flip sweep"),
 "C10": dict(
  category="model_checking",
  text="SM.tla honest-link invariants (Lockstep, HonestDelivers, across the wrap, any protected status) checked by TLC for the intended and as-built designs; SMCmd.tla specifies the structure of a protected command (class 0C, DO'87'/'85' with padding indicator by INS parity, DO'97' iff Ne, DO'8E', outer Lc/Le via Apdu.tla) for 1036 command shapes (data lengths around block / 255 / 256 / 65535 boundaries, 7 Ne values, odd/even INS, 3DES/AES); every shape is sent through the real DoAPDU inside a 4-exchange fault-free history with random protected statuses: wire bytes are compared with the specified structure, the independent chip must authenticate and decrypt to the intended command, and terminal and chip counters must be equal after every exchange; in whole reads (BAC, PACE, PACE-CAM, CA changing the keys) no command reaches the chip unprotected once a protected one has. Thorough: the counter discipline for histories of ANY length is an inductive invariant of Lockstep.tla discharged with Apalache (initiation, consecution, IndInv => Lockstep for moduli incl. 2^64 and 2^128, and a chip incrementing once per exchange must break it).",
  design_ref="DESIGN.md §6 C10",
  note="DO'85' carries the padding indicator as the property states (chipsim option); commands whose protected form exceeds an extended APDU are outside.",
  technique="TLA+ specs (SM.tla, SMCmd.tla, Apdu.tla) with TLC; specified command structures replayed into DoAPDU against an independent chip; inductive invariant (Lockstep.tla) with Apalache in the thorough tier"),
 "C05": dict(
  category="model_checking",
  text="Bac.tla models the mutual authentication symbolically with the answer to EXTERNAL AUTHENTICATE coming from the chip, a replay of an earlier run, a forgery under another document's keys, a mutated cryptogram, a key holder not echoing RND.IFD / RND.IC, wrong lengths or an error status, for equal and different terminal / chip MRZs; TLC checks Completeness, Soundness, FailClosed on all 36 scenarios; each is executed (12 / 200 repetitions with fresh randoms) with the real bac.DoBAC against the chip simulator, edge terminal randoms through the randomness hook, 'mutated' = one bit, the same bit in two octets, two octets exchanged, two bits of one octet; and every well-formed zone of Mrz.tla (all layouts, short / extended numbers) plus generated zones is opened with the chip personalised from the SPECIFICATION's MRZ information.",
  design_ref="DESIGN.md §6 C05",
  note="Symbolic 3DES/MAC in the model; key derivation oracle is chipsim (checked against 9303-11 Appendix D).",
  technique="TLA+ spec (Bac.tla, Mrz.tla) with TLC; scenarios replayed into bac.DoBAC against an independent chip"),
 "C04": dict(
  category="model_checking",
  text="Pace.tla models PACE-GM / -CAM with symbolic Diffie-Hellman and 17 deviations (other password, altered nonce / mapping key / agreement key / token / chip authentication data, chip authentication data left out, echoed keys, a password-less counterpart reflecting the terminal's agreement key AND token, error status at each step, foreign static key); scenarios carry up to two compatible deviations at once (224 scenarios), so the reflection attack is FOUND by TLC as the pair {echoed agreement key, echoed token} when the design omits the comparison of the two agreement keys (MC_Pace_noecho must violate FailClosed), not written in by hand; TLC checks Completeness, FailClosed, CamGated, Agreement, StatusFails and the selection rule over all subsets of advertised infos. Binding: real pace.DoPACE against the chip simulator over parameter ids 8..18 x GM 3DES/AES-128/192/256 and CAM AES x MRZ / CAN passwords, shared secrets with a leading zero octet FORCED by the chip choosing its scalar after seeing the terminal's key, every deviation in several concrete forms (other valid point, bit flip, truncation, empty, 00), and CardAccess files advertising supported entries among DH / IM / unknown ones in three entry orders (the file is a SET).",
  design_ref="DESIGN.md §6 C04",
  note="Chip side is harness/chipsim (checked against 9303-11 Appendix G); a PACEInfo with a supported OID but RFU parameter id is outside the selection clause.",
  technique="TLA+ spec (Pace.tla) with TLC; scenario x concrete matrix replayed into pace.DoPACE against an independent chip with forced edge slices"),
 "C06": dict(
  category="model_checking",
  text="ChipAuth.tla models CA v1 with chip strategies genuine / random keys / old session / no session / other key / replayed response / refusal; TLC checks Soundness and Completeness; binding: real chipauth.DoChipAuth after a real BAC against the chip simulator over curves 8..18 x named / explicit parameters x 3DES (announced or inferred -> MSE:Set KAT) / AES-128/192/256 x key-id arrangements (none, 1, 0, two keys), terminal scalars forcing a shared secret with a leading zero octet through the key-generation hook, and every impostor strategy; success requires the chip-side record that the certified private key was used, equal keys and restarted counter and a subsequent read under the new session. CaSelect.tla models which key and suite terminal (selectCAInfo / inferCAInfoFromKey / selectCAPubKeyInfo, one operator each) and chip (DO'84') settle on over all DG14 arrangements of one or two keys with independent optional key ids on the public key and on its ChipAuthenticationInfo (4160 arrangements, SelectOK on the 121 conforming ones; the 'identical ids' design must violate it): all 121 are personalised and run, the chip-side record must show the key and suite the specification names. (PACE-CAM half: C04.)",
  design_ref="DESIGN.md §6 C06",
  note="Chip side is harness/chipsim.",
  technique="TLA+ specs (ChipAuth.tla, CaSelect.tla) with TLC; strategies x concrete matrix and every TLC-enumerated DG14 arrangement replayed into chipauth.DoChipAuth against an independent chip"),
 "C07": dict(
  category="model_checking",
  text="ActiveAuth.tla models the challenge plumbing (caller-supplied or generated challenge -> wire -> evidence -> offline verification with none / same / different challenge) and response classes; TLC checks Plumbing, Exact, HardFail, Reproduces on all 24 scenarios; binding: real DoActiveAuth / ValidateActiveAuthSignature / Verifier.Verify against the chip simulator's independent ISO 9796-2 signer (moduli 1024..4096 incl. 1029 / 1031 bits, all five trailers) and ECDSA signer (11 curves, plain and DER), with genuine, replayed, impostor and mutated responses (bit flip, truncation, zero, empty, s+n, wrong trailer), and ground genuine plain r||s signatures that start like a DER header (30 3E); validity of the bytes the library saw is decided by the harness' own verifier.",
  design_ref="DESIGN.md §6 C07",
  note="The substance (is this byte string a valid signature) is decided by a second implementation, the TLA+ part organises scenarios and the plumbing rule; value-preserving re-encodings get no verdict.",
  technique="TLA+ spec (ActiveAuth.tla) with TLC; scenarios replayed into the real AA code with an independent signature oracle"),

 "C08": dict(
  category="model_checking",
  text="Session.tla composes the 13 pipeline steps of reader.ReadDocument over a chip configuration record (access arrangement bac / pace / pace+bac / cam / cam+bac, data-group subsets, AA none/rsa/ecdsa, CA, issuer trusted, chip kind) and reader options (skip PACE, skip images, MRZ / CAN): TLC checks the C08 clauses (every listed and stored data group obtained, each supported mechanism successful, PA iff issuer trusted) and the C02 end-to-end clauses on all 7808 (configuration, options) pairs and prints the expected outcome of each. Binding: for the genuine configurations (a sixth in quick, all x3 in thorough) a passport is personalised with random concrete variety (PACE / CA curves and suites, AA key types, CSCA/DS signature profiles, hash-list order of EF.SOD, DG13 sizes at length boundaries up to 30000 and with a longer-than-shortest outer length, chip response caps, Le limits, extended length on/off, read sizes 100..65536) and read with the real Reader.ReadDocument against the chip simulator; every file is compared byte for byte with the chip's, every step outcome, verdict, the set of data groups and the ReaderStatus phase sequence with the model's expectation, and every success with the chip's own completion record. Beyond the listed clauses, the chip-side command record of every read is validated against Wire.tla (the command language of a read: which command may follow which answer) by Trace_Wire; divergences are reported as notes and counted. 'Any per-read size the chip tolerates' along a session: the session histories of ReadSession.tla (see C13) are replayed and every read the specification completes must be completed by the real NfcSession.",
  design_ref="DESIGN.md §6 C08",
  note="Premise of the success clause stated in the evidence file (read size within what the chip's length format supports, first read returns the complete TLV header).",
  technique="TLA+ spec (Session.tla) with TLC; expected outcome per configuration replayed into Reader.ReadDocument against an independent chip and issuing PKI"),
 "C11": dict(
  category="fault_enumeration",
  text="Session.tla names, per pipeline step, how a failing exchange may continue (tolerate / record / abort / retry), what each continuation may produce, and NoSilentLoss (no error and no changed step outcome => no file lost); TLC checks that every active step of every configuration has a defined continuation and that every continuation satisfies NoSilentLoss. Binding (exhaustive fault enumeration): for 3 (quick) / 7 (thorough) chip configurations one fault-free real read fixes the exchange count N; then for EVERY exchange index k < N and EVERY fault kind (empty, one byte, truncated, garbled, oversized, random error status, unprotected 9000, bare 6A82, bare 6283) one real ReadDocument is run with the fault injected on the link, plus seeded 2-4-fault scripts; each result is judged against the chip's ground truth: no panic, returns within 60 s, every returned file byte-identical to the chip's, no authentication step reported successful that the chip did not complete, DataTrusted only with passing PA and completeness over genuine files, and a data group missing from a read that returned no error is a swallowed fault.",
  design_ref="DESIGN.md §6 C11",
  note="'never loops' is bounded observation (60 s per read); payload changes under an unchanged 9000 on unprotected exchanges are undetectable and not asserted.",
  technique="TLA+ spec (Session.tla) continuation table + exhaustive single-fault enumeration over every exchange of real reads against an independent chip"),
 "C14": dict(
  category="model_checking",
  text="Evidence.tla writes the three offline evidence verifiers (pace.VerifyEvidence for PACE-CAM, chipauth.VerifyEvidence, activeauth.VerifyEvidence) as chains of checks over a symbolic Diffie-Hellman / MAC / signature term algebra; TLC checks that the genuine capture verifies, that replacing ANY single field (10 CAM + 4 CA + 3 AA fields) by a fresh value of the same type makes the corresponding verifier fail, that the documented joint replacement of ChipKaPub+EcadIC is the only two-field exception, and that the pre-repair design (algorithm field not compared) has the gap; a state machine live read -> export -> tamper (none / any field of a present mechanism / the joint replacement / a document file) -> offline verification over every set of mechanisms a live session can leave evidence of gives the expected offline verdict VECTOR of each case (Reproduces, FieldTamperDetected incl. 'every other verdict stays as it was live', FileTamperDetected, OnlyJointPasses). Binding: live sessions of the real Reader against the chip simulator over the mechanisms (CA after BAC / after PACE, PACE-CAM, AA-RSA, AA-ECDSA, AA+CAM with untrusted issuer) with random curves / suites / key sizes are exported with the real ToCbor and verified offline with the real Verifier: the verdict vector (PA, completeness, AA, CAM, CA) and Summary must equal the live ones; then every evidence field named by the specification is replaced by each value-changing mutation (bit flip, shorter, longer, empty, oversized, the same field of ANOTHER genuine session of the same passport, other OIDs / parameter ids) and every obtained data group gets byte flips: the corresponding offline verdict must fail and, for field changes, the rest of the vector must be the one Evidence.tla gives for that (live set, live PA verdict, field). Signatures are additionally replaced by the other representations Evidence.tla knows for the same (key, message): S + N, r + n, s + n must fail (OutOfRangeDetected); ECDSA's (r, n - s) verifies - TLC shows CongruentSignatureDetected false for the as-built verifier and the real one confirms it: known finding. 'Genuine evidence always verifies' is run over a matrix of every curve for PACE-CAM and CA (P-521 repeatedly).",
  design_ref="DESIGN.md §6 C14",
  note="Value-preserving changes (leading zero octets of scalars, emptied SmSsc when the counter was 2 - documented legacy default, octets after a DER signature) are outside; EF.SOD / CardSecurity byte changes are judged by C01.",
  technique="TLA+ spec (Evidence.tla) checked with TLC: every single-field replacement must fail; fields named by the spec tampered in real exports and verified with the real Verifier against live sessions with an independent chip"),
 "C15": dict(
  category="model_checking",
  text="Envelope.tla models the three nested CBOR envelopes (magic, version, SHA-256, payload) with Import's checks in code order and Corrupt over 9 component classes x 3 levels; TLC checks RoundTrip for every subset of file kinds / evidence kinds, Detects (after one corruption the import is Reject or identical) and ForeignOrNewer, and prints the expected outcome of each (level, component) pair. Binding: documents from live sessions (all mechanisms), their no-evidence and fewer-files variants and the empty document are exported with the real ToCbor; EVERY byte position x substitution set (incl. the masks that turn a version number into the next one), every truncation length and extensions are imported with the real UnmarshalVerifiableDoc / NewDocumentFromCbor; an independent minimal CBOR walker classifies each position into the specification's (level, component) class and the real outcome must be the specified one: error, or files + evidence + parsed view identical to the original; all documents are exported before any blob is imported (exports must not share state).",
  design_ref="DESIGN.md §6 C15",
  note="The third-party CBOR decoder is abstracted as well-formed-or-not; only the outer version-down is accepted with unchanged content.",
  technique="TLA+ spec (Envelope.tla) model-checked with TLC; expected outcome per (level, component) class replayed over every byte position of real exports"),
 "C19": dict(
  category="model_checking",
  text="LdsView.tla states the parsed view of every LDS file kind as a function of its content SHAPE (which optional data objects are present, how often each repeated element occurs and in which template, independent of tag-list / element order, BCD or character dates and length form), the outer-tag rule AcceptedAs, the identity-summary precedence rules (DG11 over MRZ for name and date of birth with the MRZ values always surfaced, all images of all templates, EF.SOD over EF.COM for the versions) and a life-cycle state machine (construct / caller overwrites its buffer / caller edits the parsed struct / re-construct / export / import) with the invariants 'the object's raw bytes are the file' and 'the view is the view of exactly those bytes'. TLC enumerates the shapes (13.6k quick: pairwise optional subsets x repetitions 0..3 x encodings, all template arrangements of DG2, SecurityInfos type multisets, SOD versions, 208 kind x data-group pairings, 2.5k summary arrangements; every optional subset in thorough), checks encoding independence and no-element-dropped on the specification, and prints the specified view of each; the harness concretises every shape with fresh distinguishable values, encodes it with its own encoder and compares the view of the real constructors / DocumentEx.Summary with (a) the specified shape, (b) the independent reference decoding of the same bytes; every life-cycle behaviour is replayed on real documents with the state compared after each action. Plus random content over all 13 kinds, every constructor against every other kind's files, and foreign-template-in-front files.",
  design_ref="DESIGN.md §6 C19",
  note="The reference decoding (harness/lds) is my second reading of Doc 9303-10 / ISO 19794-5 / 39794-5; not asserted: empty components of '<'-separated lists (dropped on purpose), efCVCA of TerminalAuthenticationInfo (not exposed), the OID arc of EFDIRInfo.",
  technique="TLA+ spec (LdsView.tla) enumerated with TLC; specified view per shape and life-cycle behaviours replayed into the real constructors, compared with an independent reference decoding"),
 "C20": dict(
  category="model_checking",
  text="Concurrency.tla models (1) one shared reader / verifier: configuration, one mutex, setters and the long call split into Call / Acquire / Write / Snapshot / Exchange / Release so that TLC explores every interleaving of three goroutines' programs (Mutex, NoInterleaving of the exchanges the chip sees, Linearizable: every long call used exactly the configuration a sequential execution in lock order gives it); the designs without whole-call locking (snapshot under the lock, then release), without the mutex, and with a verification context shared between independent verifications must each yield their counterexample; (2) independent verifications sharing one trust store, each with its own reference time (AsIfAlone); (3) the sync.Once-built trust store (InitOnce, AllSeeThePool). Binding: every schedule of the forcible sub-model (start a call / let a call perform its next exchange; 134 behaviours) is forced on real mobile.Reader, reader.Reader and verifier.Verifier objects through gates in the Transceiver / CertPool interfaces; the controller's observations (call, blocked-at-gate, gate opened, return with the configuration the chip saw: PACE attempted, DG2 selected, challenge on the wire, Le of READ BINARY) are validated against Trace_Concurrency, where lock acquisitions are unobserved internal steps placed by TLC, and the chip-side order of exchanges must be one block per call; every interleaving of three independent passive authentications at the pool-lookup gates (documents whose chains are valid at disjoint times) must give the lone result; 32 racing callers initialise the built-in trust store once (hook event count); a contended random workload runs in a -race build of the driver, any race report is a violation; fresh processes of that build whose FIRST library calls are already parallel (independent verifiers over one trust store, independent readers, mobile verifiers) cover lazily initialised tables (cold starts).",
  design_ref="DESIGN.md §6 C20",
  note="Schedules are forced at the granularity of the public gates (transceiver exchanges, pool lookups); finer interleavings inside the Go runtime are sampled by the race-detector run, not enumerated.",
  technique="TLA+ spec (Concurrency.tla) model-checked with TLC; forced schedules on the real shared objects recorded and validated against Trace_Concurrency; Go race detector on a contended driver"),
 "C12": dict(
  category="exploration",
  text="A specification cannot observe a Go panic, CPU time or allocation; Hostile.tla contributes the systematic space of hostile inputs - 2963 mutation plans (base input kind x operator x target class: byte-level damage; BER length fields that lie: short, long, 2 GiB, 4 GiB, indefinite, non-minimal, 5 and 8 length octets; zero / long / other-class tags; nesting 49..5000, 9999..40000 children; dropped, duplicated, swapped nodes; malformed OIDs, negative and huge integers, bad string types and BIT STRINGs; CBOR heads of 4 GiB / 2^63, renamed / dropped / duplicated keys, type swaps, deep arrays, unterminated indefinite items; evidence records / fields / document files absent, empty, oversized; hostile chip answer policies; MRZ text damage), their applicability rules, the map from base kind to the public entry points that consume it, and the totality contract with the resource bounds TimeBoundMs / AllocBound. TLC enumerates the plans; the harness applies each to generated genuine inputs (13 LDS kinds, signed EF.SOD / CardSecurity / master lists / certificates, CBOR exports of live sessions with evidence of every mechanism, protected responses, MRZs) and calls every listed entry point (830k calls quick): a recovered panic, a call that does not return in 30 s, time beyond the bound, or allocation beyond 64 MiB + 4 KiB x input length (length-lying plans run one at a time with runtime.MemStats around each call) is a violation. Also: every short string of Tlv.tla's exhaustive table bare and wrapped as the content of each of the 13 LDS templates, 77 hostile-chip reads, and signatures with scalars between the group orders of sibling curves.",
  design_ref="DESIGN.md §6 C12",
  note="Exploration, not proof: deciding power is that of structure-aware generation; resource bounds are generous observations. Four defects found this way were repaired (see known_findings.json).",
  technique="TLA+ spec (Hostile.tla) enumerates mutation plans and entry points with TLC; harness applies them to generated genuine inputs and observes panic / time / allocation of the real entry points"),
}
PENDING = {}

def main():
    hooks = []
    try:
        out = subprocess.check_output(["git", "-C", "/repo", "log", "--format=%h %s"]).decode().splitlines()
        hooks = [l.split()[0] for l in out if l.split(None, 1)[1].startswith("verif:")]
    except Exception:
        pass
    m = {
     "version": 1,
     "setup_cmd": "bin/build",
     "hooks": {
       "guard": "verif",
       "enable": "go build -tags verif (bin/build builds harness/cmd/vcheck against /repo with the tag on)",
       "baseline_off_cmd": "cd /repo && PATH=/opt/veriftools/go1.26.8/bin:$PATH GOFLAGS=-mod=mod GOPROXY=off GOSUMDB=off GOTOOLCHAIN=local go test -vet=off -count=1 $(go list ./... | grep -v cmd/gmrtd-reader)",
       "source_commits": hooks,
       "add_only": True,
     },
     "engines": [
       {"name": "tlc", "path": "/opt/veriftools/tla/tla2tools.jar", "serves_properties": sorted(CHECKS), "kind_free_text": "TLC 1.8.0 explicit-state model checker over /verif/spec/*.tla (exhaustive bounded instances, behaviour enumeration, trace validation)"},
       {"name": "vcheck", "path": "/verif/harness/cmd/vcheck", "serves_properties": sorted(CHECKS), "kind_free_text": "Go conformance driver: replays TLC behaviours into the real gmrtd code, records traces from it (chip simulator, issuing PKI, link adversary) and feeds them back to TLC"},
     ],
     "checks": [],
     "not_applicable": [],
     "notes": "Every check is `bin/check <ID> <tier>`; exit 2 = infrastructure problem (never a verdict). Known findings: /verif/known_findings.json. See DESIGN.md.",
    }
    for pid in ALL:
        if pid in CHECKS:
            c = CHECKS[pid]
            m["checks"].append({
              "property_id": pid,
              "quick_cmd": "bin/check %s quick" % pid,
              "thorough_cmd": "bin/check %s thorough" % pid,
              "evidence_file": "/verif/evidence/%s.json" % pid,
              "replay_cmd_template": "bin/check %s quick --replay {path}" % pid,
              "engine": "tlc+vcheck",
              "level_claimed": {"category": c["category"], "text": c["text"], "design_ref": c["design_ref"]},
              "level_note": c["note"],
              "technique": c["technique"],
            })
        else:
            m["not_applicable"].append({"property_id": pid, "reason": PENDING.get(pid, "check not built yet (see DESIGN.md §11 build order); nothing is claimed for this property at this commit")})
    json.dump(m, open(os.path.join(ROOT, "MANIFEST.json"), "w"), indent=1)
    # validate
    try:
        import jsonschema
        jsonschema.validate(m, json.load(open("/root/.vp/MANIFEST.schema.json")))
        for pid in CHECKS:
            p = os.path.join(ROOT, "evidence", pid + ".json")
            if os.path.exists(p):
                jsonschema.validate(json.load(open(p)), json.load(open("/root/.vp/EVIDENCE.schema.json")))
        print("MANIFEST.json valid;", len(m["checks"]), "checks")
    except ImportError:
        print("jsonschema not available; not validated")

main()
