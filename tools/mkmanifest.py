#!/usr/bin/env python3
"""Regenerates /verif/MANIFEST.json from the table below (single source of truth)."""
import json, os, subprocess
ROOT = os.path.dirname(os.path.dirname(os.path.abspath(__file__)))
ALL = ["C%02d" % i for i in range(1, 21)]

CHECKS = {
 "C17": dict(
  category="model_checking",
  text="Apdu.tla states the ISO 7816-4 encoding rule and an independent parser; TLC proves Parse(Encode(x))=x and minimality for every Nc in 0..65535 against the Ne boundary set and every Ne in 0..65536 against the Nc boundary set (917k states, thorough) and the specified length fields of every such pair are replayed into the real CApdu.Encode; recorded random commands/responses are validated against Trace_Apdu. Exhaustive over lengths is the right level because the function depends only on the two lengths.",
  design_ref="DESIGN.md §6 C17",
  note="Trusts TLC and the transcription of ISO 7816-4 §5.1 in Apdu.tla; data bytes are symbolic in the model (random on the Go side).",
  technique="TLA+ spec (Apdu.tla) model-checked with TLC; TLC-emitted table replayed into CApdu.Encode; recorded lines validated against Trace_Apdu"),
 "C16": dict(
  category="model_checking",
  text="Tlv.tla transcribes X.690 8.1 (identifier, length forms, end-of-contents only inside indefinite contents, exact filling of definite contents) with the library's limits; TLC checks decode(encode(t))=t, idempotence, canonical fixed points and Unwrap/Decode agreement on EVERY byte string up to length 4 (quick) / 5 (thorough) over a 14-octet alphabet containing every behaviour-changing octet, and prints the specified outcome of each string; every row is replayed into the real tlv.Decode/Encode/DecodeEncode/NodeByTagOccur/Unwrap. Grammar-generated and mutated inputs up to several hundred bytes plus inputs at the depth/count limits are recorded from the real decoder and validated against Trace_Tlv.",
  design_ref="DESIGN.md §6 C16",
  note="Exhaustive only for short strings over the reduced alphabet; identifier octet 00 outside end-of-contents is a grey zone (no verdict). Trusts TLC and my reading of X.690.",
  technique="TLA+ spec (Tlv.tla) model-checked with TLC; table replay into tlv.Decode; recorded decodes validated against Trace_Tlv"),
 "C18": dict(
  category="model_checking",
  text="Mrz.tla states the 7-3-1 check digit, the TD1/TD2/TD3 field positions, the extended-document-number rule and the MRZ-information construction; TLC generates valid zones of all three layouts and applies every single-character substitution over a reduced alphabet, every adjacent transposition, deletions and insertions (5k zones quick, 217k thorough), checks consistency of must-reject / well-formed and agreement of the key-seed routes on the specification, and prints the outcome of each zone, which is replayed into mrz.MrzDecode and the three password routes. Full-alphabet random zones and arbitrary strings are recorded from the real code and validated against Trace_Mrz.",
  design_ref="DESIGN.md §6 C18",
  note="Zones that are neither must-reject nor well-formed (digits in names, unset dates with '<' check digit, characters outside the alphabet) get no verdict.",
  technique="TLA+ spec (Mrz.tla) model-checked with TLC; mutant table replayed into mrz.MrzDecode / password routes; recorded calls validated against Trace_Mrz"),
 "C02": dict(
  category="model_checking",
  text="Verdict.tla states the gates of the property as predicates on any verdict function and the as-built mapping of document/session.go; TLC enumerates all 432 outcome vectors (PA absent/error/failed/ok x CardSecurity authenticated x AA/PACE-CAM/CA absent/failed/ok x completeness) and checks the gates; each vector is concretised into real document.Session values in 16 (quick) / 256 (thorough) representations and Summary(), VerifiedChipAuthStatus(), ChipAuthProtocolStatus() are checked against the gates. (The end-to-end half with hostile chips is added by the session checks.)",
  design_ref="DESIGN.md §6 C02",
  note="The product half is exhaustive over the abstract vectors; representations per vector are sampled in quick.",
  technique="TLA+ spec (Verdict.tla) exhaustively enumerated with TLC; every vector replayed into document.Session/DocumentEx.Summary"),
 "C13": dict(
  category="model_checking",
  text="ReadFile.tla models SELECT, the 4-byte header read, the length computation, the read loop with Le = min(maxLe, remaining), the first-block fall-back ladder and the chunk limit, with the chip as a separate process choosing response sizes, caps, Le rejections and short-EF-identifier semantics for P1 bit 8; TLC checks Exact / NotFound / Bounded over the product of file shapes, read sizes and chip behaviours (6M states quick) and termination under fairness; the as-built switch (offsets >= 32768 in P1) must yield the counterexample the known finding names. The real NfcSession.ReadFile is run against the independent chip simulator over the same grid plus seeded random shapes, plain and under 3DES/AES secure messaging; returned bytes are compared with the stored object and every recorded SELECT / READ BINARY / outcome sequence is validated against Trace_ReadFile.",
  design_ref="DESIGN.md §6 C13",
  note="Chip behaviours are those of harness/chipsim (ISO 7816-4 READ BINARY semantics); an error outcome is never a C13 violation.",
  technique="TLA+ spec (ReadFile.tla) model-checked with TLC; traces of the real ReadFile against a chip simulator validated against Trace_ReadFile; direct byte comparison"),
}
PENDING = {}

def main():
    hooks = []
    try:
        out = subprocess.check_output(["git", "-C", "/repo", "log", "--format=%h %s"]).decode().splitlines()
        hooks = [l.split()[0] for l in out if l.split(None, 1)[1].startswith("verif:")]
    except Exception:
        pass
    m = {
     "version": 1,
     "setup_cmd": "bin/build",
     "hooks": {
       "guard": "verif",
       "enable": "go build -tags verif (bin/build builds harness/cmd/vcheck against /repo with the tag on)",
       "baseline_off_cmd": "cd /repo && PATH=/opt/veriftools/go1.26.8/bin:$PATH GOFLAGS=-mod=mod GOPROXY=off GOSUMDB=off GOTOOLCHAIN=local go test -vet=off -count=1 $(go list ./... | grep -v cmd/gmrtd-reader)",
       "source_commits": hooks,
       "add_only": True,
     },
     "engines": [
       {"name": "tlc", "path": "/opt/veriftools/tla/tla2tools.jar", "serves_properties": sorted(CHECKS), "kind_free_text": "TLC 1.8.0 explicit-state model checker over /verif/spec/*.tla (exhaustive bounded instances, behaviour enumeration, trace validation)"},
       {"name": "vcheck", "path": "/verif/harness/cmd/vcheck", "serves_properties": sorted(CHECKS), "kind_free_text": "Go conformance driver: replays TLC behaviours into the real gmrtd code, records traces from it (chip simulator, issuing PKI, link adversary) and feeds them back to TLC"},
     ],
     "checks": [],
     "not_applicable": [],
     "notes": "Every check is `bin/check <ID> <tier>`; exit 2 = infrastructure problem (never a verdict). Known findings: /verif/known_findings.json. See DESIGN.md.",
    }
    for pid in ALL:
        if pid in CHECKS:
            c = CHECKS[pid]
            m["checks"].append({
              "property_id": pid,
              "quick_cmd": "bin/check %s quick" % pid,
              "thorough_cmd": "bin/check %s thorough" % pid,
              "evidence_file": "/verif/evidence/%s.json" % pid,
              "replay_cmd_template": "bin/check %s quick --replay {path}" % pid,
              "engine": "tlc+vcheck",
              "level_claimed": {"category": c["category"], "text": c["text"], "design_ref": c["design_ref"]},
              "level_note": c["note"],
              "technique": c["technique"],
            })
        else:
            m["not_applicable"].append({"property_id": pid, "reason": PENDING.get(pid, "check not built yet (see DESIGN.md §11 build order); nothing is claimed for this property at this commit")})
    json.dump(m, open(os.path.join(ROOT, "MANIFEST.json"), "w"), indent=1)
    # validate
    try:
        import jsonschema
        jsonschema.validate(m, json.load(open("/root/.vp/MANIFEST.schema.json")))
        for pid in CHECKS:
            p = os.path.join(ROOT, "evidence", pid + ".json")
            if os.path.exists(p):
                jsonschema.validate(json.load(open(p)), json.load(open("/root/.vp/EVIDENCE.schema.json")))
        print("MANIFEST.json valid;", len(m["checks"]), "checks")
    except ImportError:
        print("jsonschema not available; not validated")

main()
