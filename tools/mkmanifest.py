#!/usr/bin/env python3
"""Regenerates /verif/MANIFEST.json from the table below (single source of truth)."""
import json, os, subprocess
ROOT = os.path.dirname(os.path.dirname(os.path.abspath(__file__)))
ALL = ["C%02d" % i for i in range(1, 21)]

CHECKS = {
 "C17": dict(
  category="model_checking",
  text="Apdu.tla states the ISO 7816-4 encoding rule and an independent parser; TLC proves Parse(Encode(x))=x and minimality for every Nc in 0..65535 against the Ne boundary set and every Ne in 0..65536 against the Nc boundary set (917k states, thorough) and the specified length fields of every such pair are replayed into the real CApdu.Encode; recorded random commands/responses are validated against Trace_Apdu. Exhaustive over lengths is the right level because the function depends only on the two lengths.",
  design_ref="DESIGN.md §6 C17",
  note="Trusts TLC and the transcription of ISO 7816-4 §5.1 in Apdu.tla; data bytes are symbolic in the model (random on the Go side).",
  technique="TLA+ spec (Apdu.tla) model-checked with TLC; TLC-emitted table replayed into CApdu.Encode; recorded lines validated against Trace_Apdu"),
}
PENDING = {}

def main():
    hooks = []
    try:
        out = subprocess.check_output(["git", "-C", "/repo", "log", "--format=%h %s"]).decode().splitlines()
        hooks = [l.split()[0] for l in out if l.split(None, 1)[1].startswith("verif:")]
    except Exception:
        pass
    m = {
     "version": 1,
     "setup_cmd": "bin/build",
     "hooks": {
       "guard": "verif",
       "enable": "go build -tags verif (bin/build builds harness/cmd/vcheck against /repo with the tag on)",
       "baseline_off_cmd": "cd /repo && PATH=/opt/veriftools/go1.26.8/bin:$PATH GOFLAGS=-mod=mod GOPROXY=off GOSUMDB=off GOTOOLCHAIN=local go test -vet=off -count=1 $(go list ./... | grep -v cmd/gmrtd-reader)",
       "source_commits": hooks,
       "add_only": True,
     },
     "engines": [
       {"name": "tlc", "path": "/opt/veriftools/tla/tla2tools.jar", "serves_properties": sorted(CHECKS), "kind_free_text": "TLC 1.8.0 explicit-state model checker over /verif/spec/*.tla (exhaustive bounded instances, behaviour enumeration, trace validation)"},
       {"name": "vcheck", "path": "/verif/harness/cmd/vcheck", "serves_properties": sorted(CHECKS), "kind_free_text": "Go conformance driver: replays TLC behaviours into the real gmrtd code, records traces from it (chip simulator, issuing PKI, link adversary) and feeds them back to TLC"},
     ],
     "checks": [],
     "not_applicable": [],
     "notes": "Every check is `bin/check <ID> <tier>`; exit 2 = infrastructure problem (never a verdict). Known findings: /verif/known_findings.json. See DESIGN.md.",
    }
    for pid in ALL:
        if pid in CHECKS:
            c = CHECKS[pid]
            m["checks"].append({
              "property_id": pid,
              "quick_cmd": "bin/check %s quick" % pid,
              "thorough_cmd": "bin/check %s thorough" % pid,
              "evidence_file": "/verif/evidence/%s.json" % pid,
              "replay_cmd_template": "bin/check %s quick --replay {path}" % pid,
              "engine": "tlc+vcheck",
              "level_claimed": {"category": c["category"], "text": c["text"], "design_ref": c["design_ref"]},
              "level_note": c["note"],
              "technique": c["technique"],
            })
        else:
            m["not_applicable"].append({"property_id": pid, "reason": PENDING.get(pid, "check not built yet (see DESIGN.md §11 build order); nothing is claimed for this property at this commit")})
    json.dump(m, open(os.path.join(ROOT, "MANIFEST.json"), "w"), indent=1)
    # validate
    try:
        import jsonschema
        jsonschema.validate(m, json.load(open("/root/.vp/MANIFEST.schema.json")))
        for pid in CHECKS:
            p = os.path.join(ROOT, "evidence", pid + ".json")
            if os.path.exists(p):
                jsonschema.validate(json.load(open(p)), json.load(open("/root/.vp/EVIDENCE.schema.json")))
        print("MANIFEST.json valid;", len(m["checks"]), "checks")
    except ImportError:
        print("jsonschema not available; not validated")

main()
