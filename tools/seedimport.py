#!/usr/bin/env python3
"""tools/seedimport.py <outdir> <suffix-offset>: imports the deliverables of mutation sub-agents
(<outdir>/<Cxx>/m<k>/{patch.diff,*_test.go,demo.txt,notes.md}) into /verif/seeded/<Cxx>-m<k+offset>/ with a meta.json;
the demo's package directory is taken from demo.txt."""
import os, sys, json, glob, re, shutil
out, off = sys.argv[1], int(sys.argv[2])
for d in sorted(glob.glob(out + "/C??/m?")):
    pid = os.path.basename(os.path.dirname(d)); k = int(os.path.basename(d)[1:]) + off
    if not os.path.exists(d + "/patch.diff"): continue
    demos = [os.path.basename(f) for f in glob.glob(d + "/*_test.go")]
    txt = ""
    for f in ("demo.txt", "notes.md"):
        if os.path.exists(d + "/" + f): txt += open(d + "/" + f).read() + "\n"
    pkg = None
    for dm in demos:
        m = re.search(r'([A-Za-z0-9_./-]*?)/?' + re.escape(dm), txt)
        for m in re.finditer(r'((?:[A-Za-z0-9_]+/)+)' + re.escape(dm), txt):
            cand = m.group(1).rstrip('/')
            cand = cand.split('gmrtd/')[-1] if 'gmrtd/' in cand else cand
            for c in (cand, cand.split('/')[-1]):
                if os.path.isdir('/repo/' + c): pkg = c; break
            if pkg: break
    if not pkg:
        m = re.search(r'go test[^\n]*?\./([A-Za-z0-9_/]+)', txt)
        if m and os.path.isdir('/repo/' + m.group(1).rstrip('/')): pkg = m.group(1).rstrip('/')
    dst = f"/verif/seeded/{pid}-m{k}"
    os.makedirs(dst, exist_ok=True)
    for f in ["patch.diff", "demo.txt", "notes.md"] + demos:
        if os.path.exists(d + "/" + f): shutil.copy(d + "/" + f, dst)
    meta = {"id": f"{pid}-m{k}", "property": pid, "source": "independent sub-agent given only the property record and a scratch worktree (sixth round: as the fifth)",
            "patch": "patch.diff", "demo": {"files": demos, "place_in": pkg, "run": f"go test -vet=off -count=1 ./{pkg}/"}, "checks": [pid], "needs": "see notes.md"}
    json.dump(meta, open(dst + "/meta.json", "w"), indent=1)
    print(dst, pkg, demos)
