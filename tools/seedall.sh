#!/bin/bash
# tools/seedall.sh [ids...]  — re-confirms every seeded change under /verif/seeded (suite passes with it, demo fails with it,
# demo passes without it) in a scratch worktree of /repo's HEAD and runs the checks named in its meta.json against the
# mutated worktree. Writes /verif/seeded/<id>/result.json. Scratch worktrees are removed afterwards. TIER=quick|thorough.
. "$(dirname "$0")/../bin/env.sh"
cd "$VERIF_ROOT"
ids="${*:-$(ls seeded)}"
par="${PAR:-4}"
run_one() {
  id="$1"; d="$VERIF_ROOT/seeded/$id"
  w="/tmp/seedwt/$id"; rm -rf "$w"; mkdir -p /tmp/seedwt
  git -C /repo worktree add -q --detach "$w" HEAD || return
  pkg=$(python3 -c "import json;print(json.load(open('$d/meta.json'))['demo']['place_in'])")
  checks=$(python3 -c "import json;print(' '.join(json.load(open('$d/meta.json'))['checks']))")
  tmp="/tmp/seedwt/$id.mdir"; rm -rf "$tmp"; mkdir -p "$tmp"; cp "$d"/patch.diff "$d"/*_test.go "$tmp"/ 2>/dev/null
  flags=$(python3 -c "import json;print(json.load(open('$d/meta.json'))['demo'].get('flags',''))")
  line=$(DEMO_FLAGS="$flags" WT="$w" "$VERIF_ROOT/tools/seedcheck.sh" "${id%%-*}" "$tmp" "$pkg" $checks 2>&1 | tail -1)
  echo "$line"
  python3 - "$d" "$line" "$(git -C /repo rev-parse --short HEAD)" "$(git -C "$VERIF_ROOT" rev-parse --short HEAD)" <<'PY'
import sys,json,re
d,line,repo,verif=sys.argv[1:5]
m=re.search(r'suite_with=(\d+) demo_with=(\d+) demo_without=(\d+) checks:(.*)',line)
res={"line":line,"repo_head":repo,"verif_head":verif}
if m:
    res.update({"suite_passes_with_change":m.group(1)=="0","demo_fails_with_change":m.group(2)!="0","demo_passes_without_change":m.group(3)=="0",
      "checks":{c.split('=')[0]:("VIOLATION (exit 1)" if c.endswith('rc1') else "no alarm (exit 0)" if c.endswith('rc0') else c.split('=')[1]) for c in m.group(4).split()}})
json.dump(res,open(d+"/result.json","w"),indent=1)
PY
  git -C /repo worktree remove --force "$w"; rm -rf "$tmp"
}
export -f run_one
export VERIF_ROOT
printf '%s\n' $ids | xargs -P "$par" -I{} bash -c 'run_one {}'
