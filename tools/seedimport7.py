#!/usr/bin/env python3
"""tools/seedimport7.py <outdir>: imports helper-layer mutants (<outdir>/P<k>/m<j>/...) whose notes.md names the property they
break ('BREAKS: Cxx'); they become /verif/seeded/<Cxx>-m<next free index>/."""
import os, sys, json, glob, re, shutil
out = sys.argv[1]
for d in sorted(glob.glob(out + "/P?/m?")):
    if not os.path.exists(d + "/patch.diff"): continue
    txt = ""
    for f in ("notes.md", "demo.txt"):
        if os.path.exists(d + "/" + f): txt += open(d + "/" + f).read() + "\n"
    m = re.search(r'BREAKS:?\W*(C\d\d)', txt)
    if not m:
        print("no BREAKS line in", d); continue
    pid = m.group(1)
    k = 1
    while os.path.exists(f"/verif/seeded/{pid}-m{k}"): k += 1
    demos = [os.path.basename(f) for f in glob.glob(d + "/*_test.go")]
    pkg = None
    for dm in demos:
        for mm in re.finditer(r'((?:[A-Za-z0-9_]+/)+)' + re.escape(dm), txt):
            cand = mm.group(1).rstrip('/')
            cand = cand.split('gmrtd/')[-1] if 'gmrtd/' in cand else cand
            for c in (cand, cand.split('/')[-1]):
                if os.path.isdir('/repo/' + c): pkg = c; break
            if pkg: break
    if not pkg:
        mm = re.search(r'go test[^\n]*?\./([A-Za-z0-9_/]+)', txt)
        if mm and os.path.isdir('/repo/' + mm.group(1).rstrip('/')): pkg = mm.group(1).rstrip('/')
    dst = f"/verif/seeded/{pid}-m{k}"
    os.makedirs(dst)
    for f in ["patch.diff", "demo.txt", "notes.md"] + demos:
        if os.path.exists(d + "/" + f): shutil.copy(d + "/" + f, dst)
    flags = "-race" if "-race" in txt else ""
    meta = {"id": f"{pid}-m{k}", "property": pid, "source": "independent sub-agent given the statements of all 20 properties and one helper layer of the library to change (seventh round: " + os.path.basename(os.path.dirname(d)) + ")",
            "patch": "patch.diff", "demo": {"files": demos, "place_in": pkg, "run": f"go test {flags} -vet=off -count=1 ./{pkg}/".replace("  ", " ")}, "checks": [pid], "needs": "see notes.md"}
    if flags: meta["demo"]["flags"] = flags
    json.dump(meta, open(dst + "/meta.json", "w"), indent=1)
    print(dst, pkg, demos)
