INIT Init
NEXT Next
INVARIANTS InvC08 InvC02 InvFault Emit
