\* bounds fitted to a measured state count (the first choice - 16 x 7 x 8 x 5 settings - was ~500 M states and never finished)
CONSTANTS
  MaxChunks = 1000
  Ladder <- LadderSeq
  MaxTlv = 65535
  SfiOffsets = FALSE
  Sizes <- SizesT
  MaxLes = {1, 4, 5, 128, 193, 256, 257, 65536}
  Caps = {0, 1, 100, 256}
  RejectOvers = {0, 256, 255, 191, 100}
  HdrNs = {0, 1, 3, 4}
  Policies = {"any", "max", "one"}
  SelSws = {"9000", "6A82", "6283", "6982"}
  Slack = {0, 7}
SPECIFICATION Spec
INVARIANTS Exact NotFound Bounded LoopInv
