CONSTANTS
  MaxChunks = 1000
  Ladder <- LadderSeq
  MaxTlv = 65535
  SfiOffsets = FALSE
  Sizes <- SizesT
  MaxLes = {1, 2, 3, 4, 5, 127, 128, 129, 192, 193, 255, 256, 257, 4096, 32768, 65536}
  Caps = {0, 1, 2, 5, 100, 255, 256}
  RejectOvers = {0, 256, 255, 192, 191, 128, 127, 100}
  HdrNs = {0, 1, 2, 3, 4}
  Policies = {"any", "max", "one"}
  SelSws = {"9000", "6A82", "6283", "6982"}
  Slack = {0, 7}
SPECIFICATION Spec
INVARIANTS Exact NotFound Bounded
