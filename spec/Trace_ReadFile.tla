--------------------------- MODULE Trace_ReadFile ---------------------------
(* Trace validation for C13 (and the file-read part of C08).  Events recorded per real            *)
(* NfcSession.ReadFile call:                                                                       *)
(*   {"e":"cfg","h":..,"v":..,"ef":..,"maxLe":..,"fresh":bool}  file shape; fresh = new session       *)
(*                                              (otherwise the working Le of the previous read is kept)*)
(*   {"e":"sel","sw":"9000"|...}                SELECT EF as answered by the chip                       *)
(*   {"e":"rb","p1":..,"p2":..,"le":..,"n":..,"sw":"9000"|..}  one READ BINARY the chip answered         *)
(*   {"e":"done","class":"exact"|"notfound"|"err"}                                                       *)
(* Each rb must be the request the specification's terminal issues in its current state; the chip's  *)
(* answer (n or status) is taken from the log.  The issue steps are silent.                           *)
EXTENDS ReadFile, TLC, Json
VARIABLE l
Trace == ndJsonDeserialize("trace.ndjson")
LadderSeq == << 256, 192, 128 >>
T == Trace[l]
IsEv(e) == l <= Len(Trace) /\ Trace[l].e = e

TrCfg == /\ IsEv("cfg") /\ l' = l + 1
         /\ cfg' = [h |-> T.h, v |-> T.v, ef |-> T.ef, maxLe0 |-> T.maxLe, cap |-> 0, rejectOver |-> 0, hdrN |-> 4,
                    policy |-> "max", selSw |-> "?"]
         /\ pc' = "select" /\ buf' = 0 /\ hdrGot' = 0 /\ contiguous' = TRUE /\ foreign' = FALSE /\ total' = -1
         /\ maxLe' = IF T.fresh THEN T.maxLe ELSE maxLe
         /\ chunks' = 0 /\ ladder' = 0 /\ req' = NoReq /\ result' = "none"

\* the status is the chip's: bind it, then take the specification's Select step
TrSel == /\ IsEv("sel") /\ l' = l + 1 /\ pc = "select"
         /\ LET sw == T.sw IN
            /\ IF sw = "9000" THEN pc' = "hdr" /\ result' = result
               ELSE IF sw \in {"6A82", "6283"} THEN pc' = "done" /\ result' = "notfound"
               ELSE pc' = "done" /\ result' = "err"
            /\ cfg' = [cfg EXCEPT !.selSw = sw]
         /\ UNCHANGED << buf, hdrGot, contiguous, foreign, total, maxLe, chunks, ladder, req >>

TrIssue == (HdrIssue \/ LoopIssue) /\ UNCHANGED l

\* le = -1: the command was refused before secure messaging was removed, its plain Le is not observable
ReqIs(t) == req.p1 = t.p1 /\ req.p2 = t.p2 /\ (t.le = -1 \/ req.le = t.le)

TrRbHdr == /\ IsEv("rb") /\ pc = "chiphdr" /\ l' = l + 1 /\ ReqIs(T)
           /\ IF T.sw = "9000" THEN HdrAccept(T.n) ELSE HdrReject
TrRbLoop == /\ IsEv("rb") /\ pc = "chip" /\ l' = l + 1 /\ ReqIs(T)
            /\ IF T.sw = "9000" THEN LoopAccept(T.n) ELSE LoopReject
TrDone == /\ IsEv("done") /\ pc = "done" /\ l' = l + 1 /\ result = T.class /\ UNCHANGED vars

Matched == TrCfg \/ TrSel \/ TrIssue \/ TrRbHdr \/ TrRbLoop \/ TrDone

\* index of the next cfg line after i (or one past the end)
RECURSIVE NextCfg(_)
NextCfg(i) == IF i > Len(Trace) THEN i ELSE IF Trace[i].e = "cfg" THEN i ELSE NextCfg(i + 1)

TrReject == /\ l <= Len(Trace) /\ ~ENABLED Matched
            /\ PrintT(<< "REJECT", l, pc, result, req, chunks >>)
            /\ l' = NextCfg(l + 1) /\ UNCHANGED vars

TraceInit == /\ l = 1 /\ cfg = [h |-> 2, v |-> 0, ef |-> 2, maxLe0 |-> 256, cap |-> 0, rejectOver |-> 0, hdrN |-> 4, policy |-> "max", selSw |-> "?"]
        /\ pc = "done" /\ buf = 0 /\ hdrGot = 0 /\ contiguous = TRUE /\ foreign = FALSE /\ total = -1 /\ maxLe = 256
        /\ chunks = 0 /\ ladder = 0 /\ req = NoReq /\ result = "none"
TraceNext == Matched \/ TrReject
TraceDone == (l = Len(Trace) + 1) => PrintT(<< "DONE", l - 1 >>)
\* every accepted step keeps the design invariants
Inv == Exact /\ Bounded
=============================================================================
