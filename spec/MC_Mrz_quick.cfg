CONSTANTS
  Layouts = {"TD1", "TD2", "TD3"}
  Nums = {"A", "C", "E", "F"}
  Dobs = {"A"}
  Exps = {"A"}
  Opts = {"A", "N"}
  Names = {"A"}
  SubstSet = {0, 1, 7, 10, 35, 36}
INIT Init
NEXT Next
VIEW View
INVARIANTS BaseSane Consistent Routes LenRule Emit
