----------------------------- MODULE ActiveAuth -----------------------------
(***************************************************************************)
(* Doc 9303-11 section 6.1: Active Authentication (C07) - the challenge      *)
(* plumbing between caller, wire, evidence record and offline verification.  *)
(* Whether a byte string IS a valid ISO 9796-2 / ECDSA signature over         *)
(* M1 || challenge is an atomic fact supplied by an independent verifier;     *)
(* here ValidFor(resp, c) says for which challenge a response is a valid       *)
(* signature under the DG15 key.                                              *)
(***************************************************************************)
EXTENDS Integers

Sources   == {"caller", "generated"}
Responses == {"genuine",         \* the chip's signature over the challenge on the wire
              "other-challenge", \* a valid signature by the DG15 key over ANOTHER challenge (replayed)
              "other-key",       \* a valid signature over the challenge by another key
              "invalid",         \* not a signature at all (mutated / truncated / wrong trailer)
              "error-first"}     \* the first INTERNAL AUTHENTICATE is answered with an error status (a transient fault);
                                 \* a repeated command - if the terminal sends one - is answered genuinely
Offline   == {"none", "same", "different"}   \* challenge supplied to offline verification

\* RetryFresh: the design that repeats a failed INTERNAL AUTHENTICATE once "with a fresh challenge, because a
\* challenge must never be sent twice" (as built there is no retry)
CONSTANT RetryFresh

VARIABLES source, response, offline,
          wire,      \* the SET of challenges transmitted in INTERNAL AUTHENTICATE commands
          recorded, live, off

vars == << source, response, offline, wire, recorded, live, off >>

Supplied == "c-caller"
Generated == "c-random"
Other == "c-other"

\* for which challenge is the response a valid signature under the DG15 key
ValidFor(resp, onWire) == CASE resp = "genuine" -> onWire
                            [] resp = "other-challenge" -> Other
                            [] OTHER -> "nothing"

Init == /\ source \in Sources /\ response \in Responses /\ offline \in Offline
        /\ wire = {} /\ recorded = "none" /\ live = "none" /\ off = "none"

\* the first command is answered with an error status
RunError == /\ live = "none" /\ response = "error-first"
            /\ LET c == IF source = "caller" THEN Supplied ELSE Generated IN
               IF RetryFresh
               THEN /\ wire' = {c, Generated}             \* the repeated command carries a library-generated value
                    /\ recorded' = Generated /\ live' = "success"
                    /\ off' = IF offline = "different" \/ (offline = "same" /\ c # Generated) THEN "hard-error" ELSE "success"
               ELSE /\ wire' = {c} /\ recorded' = "none"   \* no result, no evidence
                    /\ live' = "failure" /\ off' = "none"
            /\ UNCHANGED << source, response, offline >>

Run == /\ live = "none" /\ response # "error-first"
       /\ LET c == IF source = "caller" THEN Supplied ELSE Generated IN
          /\ wire' = {c}                                 \* INTERNAL AUTHENTICATE carries c
          /\ recorded' = c                               \* the evidence records c
          /\ live' = IF ValidFor(response, c) = c THEN "success" ELSE "failure"
          /\ off' = LET given == CASE offline = "none" -> "none" [] offline = "same" -> c [] offline = "different" -> Other IN
                    IF given # "none" /\ given # c THEN "hard-error"
                    ELSE IF ValidFor(response, c) = c THEN "success" ELSE "failure"
       /\ UNCHANGED << source, response, offline >>
Next == Run \/ RunError \/ (live # "none" /\ UNCHANGED vars)

Done == live # "none"
\* a caller-supplied challenge is the one transmitted and recorded
\* (EVERY command of the call carries it; nothing else is ever recorded)
Plumbing == (Done /\ source = "caller") => (wire = {Supplied} /\ recorded \in {Supplied, "none"})
Recorded == (Done /\ response # "error-first") => recorded \in wire
\* accepted exactly when the response is a valid signature over the challenge that was sent
Exact == Done => ((live = "success") <=> (response = "genuine"))
\* offline verification with a supplied challenge hard-fails when the recorded nonce differs
HardFail == (Done /\ offline = "different" /\ recorded # "none") => off = "hard-error"
\* otherwise offline reproduces the live verdict
Reproduces == (Done /\ offline # "different" /\ recorded # "none") => off = live
=============================================================================
