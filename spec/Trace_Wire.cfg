CONSTANT Diag = FALSE
INIT TInit
NEXT TNext
INVARIANTS TInv Accepted
