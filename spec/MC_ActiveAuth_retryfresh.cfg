\* the design with a retry under a fresh challenge must violate Plumbing
CONSTANT RetryFresh = TRUE
INIT Init
NEXT Next
INVARIANTS Plumbing
