------------------------------- MODULE Apdu -------------------------------
(***************************************************************************)
(* ISO/IEC 7816-4 (2013) section 5.1: command and response APDU encoding.  *)
(*                                                                         *)
(* A command is (header, Nc data bytes, Ne expected bytes).  Data bytes    *)
(* are kept symbolic: only their number matters for the length fields, so  *)
(* an encoded command is a record of its length octets; position i of the  *)
(* byte string is recovered with At.  Two independent definitions:         *)
(*   Encode  -- the encoding rule  (cases 1, 2S, 3S, 4S, 2E, 3E, 4E)       *)
(*   Parse   -- the decoding rule, working only from the total length,     *)
(*              the three octets after the header and the last two octets  *)
(* The theorem checked by TLC is Parse(Encode(x)) = x plus minimality.     *)
(* The table Encode produces is replayed into iso7816.CApdu.Encode.        *)
(***************************************************************************)
EXTENDS Integers, Sequences

MaxNc == 65535
MaxNe == 65536

Hi(n) == (n \div 256) % 256
Lo(n) == n % 256

\* extended length fields are needed iff a length does not fit the short form
NeedExt(nc, ne) == nc > 255 \/ ne > 256

\* Lc field: absent iff Nc = 0; one octet 1..255; three octets 00 hi lo
LcField(nc, ext) == IF nc = 0 THEN << >>
                    ELSE IF ext THEN << 0, Hi(nc), Lo(nc) >>
                    ELSE << nc >>

\* Le field: absent iff Ne = 0; short: one octet (256 -> 00);
\* extended: two octets if an Lc field is present, else three octets 00 hi lo (65536 -> 00 00)
LeField(nc, ne, ext) == IF ne = 0 THEN << >>
                        ELSE IF ~ext THEN << Lo(ne) >>
                        ELSE IF nc > 0 THEN << Hi(ne), Lo(ne) >>
                        ELSE << 0, Hi(ne), Lo(ne) >>

Encode(nc, ne) == LET ext == NeedExt(nc, ne) IN
                  [lc |-> LcField(nc, ext), n |-> nc, le |-> LeField(nc, ne, ext)]

Case(nc, ne) == LET ext == NeedExt(nc, ne) IN
                IF nc = 0 /\ ne = 0 THEN "1"
                ELSE IF nc = 0 THEN (IF ext THEN "2E" ELSE "2S")
                ELSE IF ne = 0 THEN (IF ext THEN "3E" ELSE "3S")
                ELSE (IF ext THEN "4E" ELSE "4S")

\* ---- the encoded command as a byte string with symbolic data ------------
TotalLen(e) == 4 + Len(e.lc) + e.n + Len(e.le)

\* octet at position i (1-based, after a 4-octet header); -1 stands for "a data byte"
At(e, i) == LET j == i - 4 IN
            IF j <= Len(e.lc) THEN e.lc[j]
            ELSE IF j <= Len(e.lc) + e.n THEN -1
            ELSE e.le[j - Len(e.lc) - e.n]

\* ---- independent parser (ISO/IEC 7816-4 5.1, "decoding conventions") ----
\* Result <<nc, ne>> or <<-1,-1>> if the string is not a command APDU.
\* A data byte in a position the parser must read as a length makes it answer "D" (cannot happen
\* for well-formed encodings; checked).
Parse(e) ==
  LET L  == TotalLen(e)
      B1 == At(e, 5)
  IN IF L = 4 THEN << 0, 0 >>
     ELSE IF L = 5 THEN << 0, IF B1 = 0 THEN 256 ELSE B1 >>
     ELSE IF B1 = -1 THEN << -2, -2 >>
     ELSE IF B1 # 0 THEN
            IF L = 5 + B1 THEN << B1, 0 >>
            ELSE IF L = 6 + B1 THEN << B1, IF At(e, L) = 0 THEN 256 ELSE At(e, L) >>
            ELSE << -1, -1 >>
     ELSE \* B1 = 0 and L > 5: extended
          IF L < 7 THEN << -1, -1 >>
          ELSE LET B23 == At(e, 6) * 256 + At(e, 7) IN
               IF L = 7 THEN << 0, IF B23 = 0 THEN 65536 ELSE B23 >>
               ELSE IF B23 = 0 THEN << -1, -1 >>
               ELSE IF L = 7 + B23 THEN << B23, 0 >>
               ELSE IF L = 9 + B23 THEN
                      LET e2 == At(e, L - 1) * 256 + At(e, L) IN
                      << B23, IF e2 = 0 THEN 65536 ELSE e2 >>
               ELSE << -1, -1 >>

RoundTrip(nc, ne) == Parse(Encode(nc, ne)) = << nc, ne >>

\* short form is used whenever it suffices, extended otherwise
Minimal(nc, ne) == LET e == Encode(nc, ne) IN
                   /\ (nc <= 255 /\ ne <= 256) => (Len(e.lc) <= 1 /\ Len(e.le) <= 1)
                   /\ (nc > 255 \/ ne > 256)   => (Len(e.lc) \in {0, 3} /\ Len(e.le) \in {0, 2, 3}
                                                   /\ Len(e.lc) + Len(e.le) >= 3)
                   /\ (ne = 256 => e.le[Len(e.le)] = 0)
                   /\ (ne = 65536 => (e.le[Len(e.le)] = 0 /\ e.le[Len(e.le) - 1] = 0))

\* ---- responses --------------------------------------------------------------
\* a response of n >= 2 octets splits into n-2 data octets and SW1 SW2; re-encoding is identity
RespSplit(n) == IF n < 2 THEN "error" ELSE [ndata |-> n - 2, sw |-> 2]
=============================================================================
