CONSTANTS
  Part = "indep"
  G = {"g1"}
  Programs <- ProgOne
  NExch = 1  WholeCall = TRUE  Locked = TRUE  NotifyInside = TRUE
  V = {"v1", "v2", "v3"} DocOf <- DocOf3 SignTime <- SignTimeAB ValidAt <- ValidAtAB PerCallContext = TRUE
  C = {"c1"}
INIT Init
NEXT Next
INVARIANTS AsIfAlone
