CONSTANTS MaxRep = 3  Full = TRUE
INIT Init
NEXT Next
INVARIANTS EncodingIndependent Laws Emit
