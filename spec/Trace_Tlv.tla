------------------------------ MODULE Trace_Tlv ------------------------------
(* Trace validation for C16.  Lines recorded from the real decoder:                               *)
(*  {"k":"d","in":[..],"ok":bool,"tree":[nodes],"canon":[..]}   one tlv.Decode + Encode call       *)
(*  {"k":"limit","depth":d,"nodes":n,"ok":bool}   input generated with known nesting / count       *)
(* node = {"t":[identifier octets],"v":[content]} | {"t":[..],"k":[nodes]}                          *)
EXTENDS Tlv, TLC, Json
VARIABLE l
Trace == ndJsonDeserialize("trace.ndjson")

LineOK(t) ==
  IF t.k = "limit" THEN t.ok = (t.depth <= MaxDepth /\ t.nodes <= MaxNodes)
  ELSE LET d == Decode(t.in) IN
       IF d.ok THEN t.ok /\ t.tree = d.nodes /\ t.canon = EncForest(d.nodes)
       ELSE IF d.grey THEN TRUE
       ELSE ~t.ok

Init == l = 1
Next == /\ l <= Len(Trace)
        /\ l' = l + 1
        /\ (LineOK(Trace[l]) \/ PrintT(<< "REJECT", l, IF Trace[l].k = "d" THEN (IF Decode(Trace[l].in).ok THEN "tree" ELSE Decode(Trace[l].in).why) ELSE "limit" >>))
Done == (l = Len(Trace) + 1) => PrintT(<< "DONE", l - 1 >>)
=============================================================================
