\* as built: roll-back on. TLC is EXPECTED to find the withhold / unprotected / replay counterexample to Authentic.
CONSTANTS
  M = 16
  MaxEx = 3
  Statuses <- StatusSet
  Datas <- DataSet
  InitSsc = {0, 13}
  NakedRollback = TRUE
  AdvBudget = 3
SPECIFICATION Spec
VIEW View
INVARIANTS Authentic
