------------------------------ MODULE ChipAuth ------------------------------
(***************************************************************************)
(* Doc 9303-11 section 6.2: Chip Authentication version 1 with ECDH (C06).   *)
(* The terminal takes the chip's static public key from DG14, sends an        *)
(* ephemeral public key, derives new session keys from the shared secret,     *)
(* restarts the send sequence counter and confirms success only by a          *)
(* protected exchange under the NEW keys.  `strategy' is what the chip does:   *)
(*   genuine       holds the private key matching the key in DG14              *)
(*   random-keys   answers 9000, derives its keys from a random secret          *)
(*   old-session   answers 9000 and keeps using the previous session            *)
(*   no-session    answers 9000 and answers further commands unprotected        *)
(*   other-key     holds a private key that does NOT match DG14 (substituted)   *)
(*   replay        answers the probe with an old protected response             *)
(*   refuse        answers the CA commands with an error status                 *)
(***************************************************************************)
EXTENDS Integers

Strategies == {"genuine", "random-keys", "old-session", "no-session", "other-key", "replay", "refuse"}

VARIABLES strategy, done, result, termKeys, chipKeys, termSsc, chipSsc, chipUsedCertifiedKey

vars == << strategy, done, result, termKeys, chipKeys, termSsc, chipSsc, chipUsedCertifiedKey >>

\* shared secret as the set of the two scalars involved (symbolic DH)
Secret(a, b) == {a, b}
KTerm == Secret("eph", "skDG14")                 \* terminal: eph * PK_DG14
KChip == CASE strategy = "genuine"     -> Secret("skDG14", "eph")
           [] strategy = "other-key"   -> Secret("skOther", "eph")
           [] strategy = "random-keys" -> Secret("rnd", "rnd2")
           [] OTHER                    -> Secret("old", "old2")          \* keeps / has the previous keys

\* key and counter under which the chip protects its answer to the probe (SELECT after CA)
ProbeAnswer == CASE strategy \in {"genuine", "other-key", "random-keys"} -> [prot |-> TRUE, keys |-> KChip, ssc |-> 2]
                 [] strategy = "old-session" -> [prot |-> TRUE, keys |-> Secret("old", "old2"), ssc |-> 7]
                 [] strategy = "replay"      -> [prot |-> TRUE, keys |-> Secret("old", "old2"), ssc |-> 4]
                 [] strategy = "no-session"  -> [prot |-> FALSE, keys |-> {}, ssc |-> 0]
                 [] strategy = "refuse"      -> [prot |-> FALSE, keys |-> {}, ssc |-> 0]

Init == /\ strategy \in Strategies /\ done = FALSE /\ result = "none"
        /\ termKeys = {} /\ chipKeys = {} /\ termSsc = -1 /\ chipSsc = -1 /\ chipUsedCertifiedKey = FALSE

Run == /\ ~done /\ done' = TRUE
       /\ chipUsedCertifiedKey' = (strategy = "genuine")
       /\ IF strategy = "refuse" THEN
             /\ result' = "failure" /\ termKeys' = {} /\ chipKeys' = {} /\ termSsc' = -1 /\ chipSsc' = -1
          ELSE LET a == ProbeAnswer IN
             /\ termKeys' = KTerm
             /\ chipKeys' = IF a.prot THEN a.keys ELSE {}
             \* new session: counter restarts at 0; probe command at 1, answer expected at 2
             /\ IF a.prot /\ a.keys = KTerm /\ a.ssc = 2
                THEN result' = "success" /\ termSsc' = 2 /\ chipSsc' = 2
                ELSE result' = "failure" /\ termSsc' = (IF a.prot THEN 2 ELSE 0) /\ chipSsc' = a.ssc
       /\ UNCHANGED strategy
Next == Run \/ (done /\ UNCHANGED vars)

Soundness    == (done /\ result = "success") => (chipUsedCertifiedKey /\ termKeys = chipKeys /\ termSsc = chipSsc)
Completeness == (done /\ strategy = "genuine") => (result = "success" /\ termKeys = chipKeys /\ termSsc = 2 /\ chipSsc = 2)
=============================================================================
