CONSTANTS MaxRep = 2  Full = FALSE
INIT LifeInit
NEXT LifeNext
INVARIANTS RawIsTheFile ViewOfRaw ImportRecomputes EmitLife
