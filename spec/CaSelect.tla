------------------------------ MODULE CaSelect ------------------------------
(***************************************************************************)
(* Doc 9303-11 section 9.2.5 - 9.2.7: which Chip Authentication key and     *)
(* cipher suite the terminal uses, and which private key the chip then       *)
(* takes (C06, "every key-id arrangement").                                   *)
(*                                                                             *)
(* DG14 carries per key a ChipAuthenticationPublicKeyInfo {key, keyId         *)
(* OPTIONAL} and, optionally, a ChipAuthenticationInfo {suite, keyId          *)
(* OPTIONAL}.  The two keyIds are independent fields: the standard only        *)
(* demands them when SEVERAL keys are published.  An arrangement is the        *)
(* sequence of keys in the order they stand in DG14:                           *)
(*     [kid |-> key id on the public key (-1 = absent),                        *)
(*      info |-> "none" or the suite of this key's ChipAuthenticationInfo,    *)
(*      ikid |-> key id on that info (-1 = absent)]                            *)
(* The terminal's rule (chipauth.selectChipAuthParams, one operator per       *)
(* function) and the chip's rule (9303-11 6.2.4: DO'84' names the private     *)
(* key, MAY be left out when there is just one) are written down separately;  *)
(* SelectOK says they meet on the same key for every conforming arrangement.  *)
(***************************************************************************)
EXTENDS Integers, Sequences, FiniteSets

CONSTANT Strict   \* FALSE = the rule as built; TRUE = "the two ids must be the same, absent = absent"

Suites == {"3des", "aes128", "aes256"}
Weight(s) == CASE s = "3des" -> 1 [] s = "aes128" -> 2 [] s = "aes256" -> 4
Kids == {-1, 0, 1, 2}

KeyRec == [kid : Kids, info : Suites \cup {"none"}, ikid : Kids]
Arrangements == UNION {[1..n -> KeyRec] : n \in 1..2}

\* ---------------------------------------------------------------- conforming (the premise)
Conforming(a) ==
  /\ \A i \in DOMAIN a : a[i].info = "none" => a[i].ikid = -1
  /\ IF Len(a) = 1
     THEN \* a single key: each keyId optional; if the info has one, the key carries the same
          a[1].ikid \in {-1, a[1].kid}
     ELSE \* several keys: every key and every info identified, ids distinct
          /\ \A i \in DOMAIN a : a[i].kid # -1 /\ (a[i].info # "none" => a[i].ikid = a[i].kid)
          /\ \A i, j \in DOMAIN a : i # j => a[i].kid # a[j].kid

\* ---------------------------------------------------------------- the terminal (as built)
Infos(a) == {i \in DOMAIN a : a[i].info # "none"}
\* selectCAInfo: highest weight, the first among equals
BestInfo(a) == IF Infos(a) = {} THEN 0
               ELSE CHOOSE i \in Infos(a) : \A j \in Infos(a) :
                       \/ Weight(a[j].info) < Weight(a[i].info)
                       \/ (Weight(a[j].info) = Weight(a[i].info) /\ i <= j)
\* resolveCAInfo: the selected info, or (inferCAInfoFromKey) 3DES with the FIRST key's id
TermSuite(a) == IF BestInfo(a) = 0 THEN "3des" ELSE a[BestInfo(a)].info
TermKid(a)   == IF BestInfo(a) = 0 THEN a[1].kid ELSE a[BestInfo(a)].ikid
\* selectCAPubKeyInfo: no id on the info = any key; otherwise the key with that id
TermCands(a) == {i \in DOMAIN a : (~Strict /\ TermKid(a) = -1) \/ a[i].kid = TermKid(a)}
TermKey(a)   == IF TermCands(a) = {} THEN 0 ELSE CHOOSE i \in TermCands(a) : \A j \in TermCands(a) : i <= j
\* DO'84' of MSE:Set KAT / MSE:Set AT
Do84(a) == TermKid(a)

\* ---------------------------------------------------------------- the chip (9303-11 6.2.4)
\* a private key serves the suite of its own info; a key without an info serves 3DES (MSE:Set KAT carries no OID)
ChipSuite(a, i) == IF a[i].info = "none" THEN "3des" ELSE a[i].info
ChipCands(a, suite) == {i \in DOMAIN a : suite = "3des" \/ ChipSuite(a, i) = suite}
ChipKey(a, suite, d84) ==
  LET c == ChipCands(a, suite) IN
  IF d84 = -1
  THEN IF Cardinality(c) = 1 THEN CHOOSE i \in c : TRUE
       ELSE LET n == {i \in c : a[i].kid = -1} IN IF Cardinality(n) = 1 THEN CHOOSE i \in n : TRUE ELSE 0
  ELSE LET m == {i \in c : a[i].kid = d84} IN IF m = {} THEN 0 ELSE CHOOSE i \in m : \A j \in m : i <= j

\* ---------------------------------------------------------------- property
Outcome(a) == [suite |-> TermSuite(a), d84 |-> Do84(a), termKey |-> TermKey(a),
               chipKey |-> IF TermKey(a) = 0 THEN 0 ELSE ChipKey(a, TermSuite(a), Do84(a))]
SelectOK(a) == Conforming(a) => (Outcome(a).termKey # 0 /\ Outcome(a).chipKey = Outcome(a).termKey)
\* the suite used is one the chosen key is published for (or 3DES when that key has no info)
SuiteOfKey(a) == (Conforming(a) /\ TermKey(a) # 0) =>
                   \/ a[TermKey(a)].info = TermSuite(a)
                   \/ (TermSuite(a) = "3des" /\ a[TermKey(a)].info = "none")
\* (Outside the premise the two sides may settle on different keys - e.g. two keys without ids and the terminal
\*  taking "any" key for the strongest info: Chip Authentication then FAILS; ChipAuth.tla's Soundness covers that.)
=============================================================================
