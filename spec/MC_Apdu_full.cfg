CONSTANT Full = TRUE
INIT Init
NEXT Next
INVARIANTS RoundTripInv MinimalInv ParserNeverReadsData Emit
