CONSTANTS
  Part = "shared"
  G = {"g1", "g2", "g3"}
  Programs <- ProgShared
  NExch = 2  WholeCall = FALSE  Locked = TRUE  NotifyInside = TRUE
  V = {"v1"} DocOf <- DocOf1 SignTime <- SignTimeAB ValidAt <- ValidAtAB PerCallContext = TRUE
  C = {"c1"}
INIT Init
NEXT Next
INVARIANTS NoInterleaving
