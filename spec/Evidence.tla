------------------------------ MODULE Evidence ------------------------------
(***************************************************************************)
(* Offline verification of captured chip-authentication evidence (C14):      *)
(* pace.VerifyEvidence, chipauth.VerifyEvidence, activeauth.VerifyEvidence    *)
(* and verifier.Verify as chains of checks over a small term algebra.         *)
(* A bundle is a record of fields; Tamper replaces ONE field by a fresh        *)
(* value of the same type (or applies the documented joint replacement);       *)
(* Verify re-derives and compares.                                             *)
(*   scalars are strings; a point is [g, s] (generator term, set of scalars)   *)
(*   G0 the base generator; Map(n, H) the mapped generator                     *)
(***************************************************************************)
EXTENDS Integers, FiniteSets

Gen(n, h) == [n |-> n, h |-> h]                    \* mapped generator: nonce and the scalars of the mapping secret
G0 == Gen("-", {})
Pt(g, s) == [g |-> g, s |-> s]
Mul(a, P) == Pt(P.g, P.s \cup {a})
Keys(P, suite) == [p |-> P, suite |-> suite]
Enc(k, m) == [k |-> k, m |-> m]

\* ---- PACE-CAM ----------------------------------------------------------------------------------
CamFields == {"paceOid", "parameterId", "nonce", "termMapPri", "termMapPub", "chipMapPub", "termKaPri", "termKaPub", "chipKaPub", "ecadIC"}
\* genuine capture: chip mapping scalar mc, chip KA scalar kc, static key sk with CA_IC = mc/sk so that CA_IC * PK_IC = PK_Map,IC
CamGenuine ==
  LET gm == Gen("s", {"mt", "mc"}) IN
  [paceOid |-> "cam-aes128", parameterId |-> "p13", nonce |-> "s", termMapPri |-> "mt", termMapPub |-> Pt(G0, {"mt"}),
   chipMapPub |-> Pt(G0, {"mc"}), termKaPri |-> "kt", termKaPub |-> Pt(gm, {"kt"}), chipKaPub |-> Pt(gm, {"kc"}),
   ecadIC |-> Enc(Keys(Pt(gm, {"kt", "kc"}), "cam-aes128"), "mc/sk")]
\* the chip's static public key in CardSecurity is sk * G0;  caIC * PK_IC as a point:
CaTimesPk(ca) == IF ca = "mc/sk" THEN Pt(G0, {"mc"}) ELSE Pt(G0, {"other"})

CamVerify(e, curveOfDoc) ==
  /\ e.paceOid \in {"cam-aes128", "cam-aes256"}
  /\ e.parameterId = curveOfDoc                                  \* points must decode on the curve / key must exist for it
  /\ e.termMapPub = Pt(G0, {e.termMapPri})
  /\ e.termMapPub # e.chipMapPub
  /\ LET gm == Gen(e.nonce, Mul(e.termMapPri, e.chipMapPub).s) IN
     /\ e.chipMapPub.g = G0
     /\ e.termKaPub = Pt(gm, {e.termKaPri})
     /\ e.termKaPub # e.chipKaPub
     /\ LET k == Keys(Mul(e.termKaPri, e.chipKaPub), e.paceOid) IN
        /\ e.ecadIC.k = k                                          \* decrypts and unpads
        /\ CaTimesPk(e.ecadIC.m) = e.chipMapPub

FreshFor(f) == CASE f \in {"termMapPub", "chipMapPub"} -> Pt(G0, {"x"})
                 [] f \in {"termKaPub", "chipKaPub"} -> Pt(Gen("s", {"mt", "mc"}), {"x"})
                 [] f = "ecadIC" -> Enc(Keys(Pt(G0, {"x"}), "x"), "x")
                 [] f = "paceOid" -> "cam-aes256"
                 [] f = "parameterId" -> "p12"
                 [] OTHER -> "x"

CamTamper(f) == [CamGenuine EXCEPT ![f] = FreshFor(f)]
\* the documented joint replacement: a new chip agreement key and the chip authentication data re-encrypted under the keys it yields
CamJoint == LET gm == Gen("s", {"mt", "mc"}) IN
            [CamGenuine EXCEPT !.chipKaPub = Pt(gm, {"y"}), !.ecadIC = Enc(Keys(Pt(gm, {"kt", "y"}), "cam-aes128"), "mc/sk")]

\* ---- Chip Authentication ------------------------------------------------------------------------
CaFields == {"termPri", "termPubKey", "smRapdu", "smSsc"}
CaGenuine == [termPri |-> "t", termPubKey |-> Pt(G0, {"t"}), smSsc |-> 2,
              smRapdu |-> [mac |-> [k |-> Keys(Pt(G0, {"t", "skca"}), "ca"), ssc |-> 2, sw |-> "9000"], sw |-> "9000"]]
CaVerify(e) ==
  /\ e.termPubKey = Pt(G0, {e.termPri})
  /\ LET k == Keys(Mul(e.termPri, Pt(G0, {"skca"})), "ca") IN
     /\ e.smRapdu.mac.k = k /\ e.smRapdu.mac.ssc = e.smSsc           \* MAC under the re-derived keys at the recorded counter
     /\ e.smRapdu.mac.sw = e.smRapdu.sw /\ e.smRapdu.sw = "9000"
CaFresh(f) == CASE f = "termPri" -> "x" [] f = "termPubKey" -> Pt(G0, {"x"}) [] f = "smSsc" -> 3
                [] f = "smRapdu" -> [mac |-> [k |-> Keys(Pt(G0, {"x"}), "ca"), ssc |-> 2, sw |-> "9000"], sw |-> "9000"]
CaTamper(f) == [CaGenuine EXCEPT ![f] = CaFresh(f)]

\* ---- Active Authentication ----------------------------------------------------------------------
AaFields == {"algorithm", "nonce", "signature"}
\* a signature is the pair (key, message) it was made with and over, in one of the REPRESENTATIONS the arithmetic
\* of the scheme knows for the same pair:  "canon" what the chip sent;  "plusN" the same residue plus the modulus
\* / group order (RSA: S + N, ECDSA: r + n or s + n);  "negS" (ECDSA only) the pair (r, n - s)
AaGenuineFor(alg) == [algorithm |-> alg, nonce |-> "c", signature |-> [key |-> "dg15", over |-> "c", rep |-> "canon"]]
AaGenuine == AaGenuineFor("rsa")
\* range check of both schemes (RFC 8017 5.2.2 "signature representative out of range"; ECDSA 0 < r, s < n)
InRange(rep) == rep # "plusN"
\* CheckAlgorithm: the evidence names the algorithm of the DG15 key (commit "compare the algorithm")
AaVerifyFor(e, alg, checkAlg) == /\ (checkAlg => e.algorithm = alg)
                                 /\ e.signature.key = "dg15" /\ e.signature.over = e.nonce
                                 /\ InRange(e.signature.rep)
AaVerify(e, checkAlg) == AaVerifyFor(e, "rsa", checkAlg)
AaFresh(f) == CASE f = "algorithm" -> "ecdsa" [] f = "nonce" -> "x" [] f = "signature" -> [key |-> "x", over |-> "c", rep |-> "canon"]
AaTamper(f) == [AaGenuine EXCEPT ![f] = AaFresh(f)]
\* value-changing, arithmetic-preserving replacements of the signature field
Reps(alg) == IF alg = "ecdsa" THEN {"plusN", "negS"} ELSE {"plusN"}
AaCongruent(alg, rep) == [AaGenuineFor(alg) EXCEPT !.signature.rep = rep]
\* what the property asks for ("changing the value of ... signature ... makes the verdict fail"):
CongruentSignatureDetected == \A alg \in {"rsa", "ecdsa"} : \A rep \in Reps(alg) : ~AaVerifyFor(AaCongruent(alg, rep), alg, TRUE)
\* what holds as built: everything but ECDSA's second signature (known finding C14: nothing in the record binds the octets sent)
OutOfRangeDetected == \A alg \in {"rsa", "ecdsa"} : ~AaVerifyFor(AaCongruent(alg, "plusN"), alg, TRUE)

\* ---- theorems ---------------------------------------------------------------------------------------
GenuineVerifies == CamVerify(CamGenuine, "p13") /\ CaVerify(CaGenuine) /\ AaVerify(AaGenuine, TRUE)
SingleTamperDetected(checkAlg) ==
  /\ \A f \in CamFields : ~CamVerify(CamTamper(f), "p13")
  /\ \A f \in CaFields : ~CaVerify(CaTamper(f))
  /\ \A f \in AaFields : ~AaVerify(AaTamper(f), checkAlg)
JointExceptionPasses == CamVerify(CamJoint, "p13")

\* =========================================================================================================
\* The pipeline as a state machine: live read -> export -> (tamper) -> offline verification.
\*   live     which mechanisms left evidence in the live session (the reader runs CA only when neither AA nor
\*            PACE-CAM completed) and the live passive-authentication verdict
\*   tamper   "none", a field of one evidence record, the documented joint replacement, or a document file
\*   offline  the verdict vector of Verifier.Verify on the (tampered) export
\* Verdicts: "absent" (no evidence / no result), "ok", "failed".
\* =========================================================================================================
Mechs == {"aa", "cam", "ca"}
LiveSets == {{}, {"aa"}, {"cam"}, {"ca"}, {"aa", "cam"}}
FieldsOf(m) == CASE m = "aa" -> AaFields [] m = "cam" -> CamFields [] m = "ca" -> CaFields
\* files with a verdict attached: every data group -> passive authentication (hash comparison); EF.SOD and
\* EF.CardSecurity -> passive authentication (signature). A data group that carries the key of a mechanism is
\* still judged by the hash comparison only (a change outside the key leaves the mechanism's evidence valid).
Files == {"DG1", "DG2", "DG14", "DG15", "SOD", "CardSecurity"}
Tampers(live) == {<< "none" >>} \cup {<< "field", m, f >> : m \in live, f \in UNION {FieldsOf(x) : x \in live}} \cup {<< "joint" >>} \cup {<< "file", x >> : x \in Files}
TamperOK(live, t) == /\ (t[1] = "field" => t[3] \in FieldsOf(t[2]))
                     /\ (t[1] = "joint" => "cam" \in live)
                     /\ (t[1] = "file" /\ t[2] = "CardSecurity" => "cam" \in live)

VARIABLES phase, live, livePa, tamper, offline
evars == << phase, live, livePa, tamper, offline >>

\* re-verification of mechanism m on the export, by the chains of checks above
Reverify(m, t) ==
  LET hit == t[1] = "field" /\ t[2] = m IN
  CASE m = "aa"  -> IF hit THEN AaVerify(AaTamper(t[3]), TRUE) ELSE AaVerify(AaGenuine, TRUE)
    [] m = "ca"  -> IF hit THEN CaVerify(CaTamper(t[3])) ELSE CaVerify(CaGenuine)
    [] m = "cam" -> IF hit THEN CamVerify(CamTamper(t[3]), "p13") ELSE IF t[1] = "joint" THEN CamVerify(CamJoint, "p13") ELSE CamVerify(CamGenuine, "p13")

EInit == /\ phase = "live" /\ live \in LiveSets /\ livePa \in {"ok", "failed"}
         /\ tamper = << "none" >> /\ offline = [m \in Mechs \cup {"pa"} |-> "absent"]
Export == /\ phase = "live" /\ phase' = "exported" /\ UNCHANGED << live, livePa, tamper, offline >>
Tamper == /\ phase = "exported" /\ \E t \in Tampers(live) : TamperOK(live, t) /\ tamper' = t
          /\ phase' = "tampered" /\ UNCHANGED << live, livePa, offline >>
OfflineVerify ==
  /\ phase = "tampered" /\ phase' = "verified"
  /\ offline' = [x \in Mechs \cup {"pa"} |->
        IF x = "pa" THEN (IF tamper[1] = "file" THEN "failed" ELSE livePa)
        ELSE IF x \notin live THEN "absent"
        ELSE IF Reverify(x, tamper) THEN "ok" ELSE "failed"]
  /\ UNCHANGED << live, livePa, tamper >>
ENext == Export \/ Tamper \/ OfflineVerify

\* C14, first sentence: without tampering the offline verdicts are the live ones (live evidence is of successful runs)
Reproduces == (phase = "verified" /\ tamper = << "none" >>) => /\ offline.pa = livePa
                                                                /\ \A m \in Mechs : offline[m] = IF m \in live THEN "ok" ELSE "absent"
\* second sentence: a changed field makes the verdict of ITS mechanism fail - and leaves every other verdict as it was
FieldTamperDetected == (phase = "verified" /\ tamper[1] = "field") =>
                          /\ offline[tamper[2]] = "failed"
                          /\ offline.pa = livePa
                          /\ \A m \in Mechs \ {tamper[2]} : offline[m] = IF m \in live THEN "ok" ELSE "absent"
\* a changed file makes passive authentication fail
FileTamperDetected == (phase = "verified" /\ tamper[1] = "file") => offline.pa = "failed"
\* the documented exception, and nothing else, passes
OnlyJointPasses == (phase = "verified" /\ tamper[1] \in {"field", "joint"} /\ "cam" \in live) =>
                      (offline.cam = "ok" <=> (tamper[1] = "joint" \/ tamper[2] # "cam"))
=============================================================================
