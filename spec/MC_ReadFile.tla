---------------------------- MODULE MC_ReadFile ----------------------------
(* Bounded instance for C13: the product of file shapes, read-size settings and chip behaviours.   *)
EXTENDS ReadFile, TLC
CONSTANTS Sizes,      \* set of << h, v >> pairs (header octets, value octets)
          MaxLes, Caps, RejectOvers, HdrNs, Policies, SelSws, Slack
LadderSeq == << 256, 192, 128 >>
SizesQ == {<<2,0>>, <<2,1>>, <<2,2>>, <<2,3>>, <<2,4>>, <<2,127>>, <<3,128>>, <<3,255>>, <<4,256>>, <<4,257>>, <<4,1000>>,
           <<4,32763>>, <<4,32764>>, <<4,32765>>, <<4,40000>>, <<4,65535>>}
SizesA == {<<4,300>>, <<4,40000>>}
SizesL == {<<2,0>>, <<2,3>>, <<2,30>>, <<3,200>>, <<4,300>>}
SizesT == SizesQ \cup {<<3,0>>, <<3,1>>, <<3,2>>, <<3,126>>, <<3,127>>, <<4,255>>, <<4,258>>, <<4,259>>, <<4,4092>>, <<4,4093>>,
           <<4,32762>>, <<4,32766>>, <<4,65531>>, <<4,65532>>, <<5,300>>}

\* nondeterministic return sizes only for small files (otherwise the reachable buffer lengths explode)
PoliciesFor(v) == IF v <= 300 THEN Policies ELSE Policies \ {"any"}
Init == /\ \E hv \in Sizes, ml \in MaxLes, cp \in Caps, ro \in RejectOvers, hn \in HdrNs, sw \in SelSws, sl \in Slack :
          \E po \in PoliciesFor(hv[2]) :
              /\ (sw # "9000" => (ml = 256 /\ cp = 0 /\ ro = 0 /\ hn = 4 /\ sl = 0 /\ po = "max"))   \* one configuration per select status
              /\ cfg = [h |-> hv[1], v |-> hv[2], ef |-> hv[1] + hv[2] + sl, maxLe0 |-> ml, cap |-> cp, rejectOver |-> ro,
                     hdrN |-> hn, policy |-> po, selSw |-> sw]
        /\ pc = "select" /\ buf = 0 /\ hdrGot = 0 /\ contiguous = TRUE /\ foreign = FALSE
        /\ total = -1 /\ maxLe = cfg.maxLe0 /\ chunks = 0 /\ ladder = 0 /\ req = NoReq /\ result = "none"
Spec == Init /\ [][Next]_vars /\ WF_vars(Next)
=============================================================================
