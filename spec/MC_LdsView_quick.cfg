CONSTANTS MaxRep = 3  Full = FALSE
INIT Init
NEXT Next
INVARIANTS EncodingIndependent Laws Emit
