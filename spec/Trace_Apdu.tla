----------------------------- MODULE Trace_Apdu -----------------------------
(* Trace validation for C17: every line records one real CApdu.Encode call                        *)
(*   {"k":"c","nc":..,"ne":..,"lc":[..],"le":[..],"total":..,"hdr":bool,"data":bool}              *)
(* or one real ParseRApdu / RApdu.Encode call                                                     *)
(*   {"k":"r","n":..,"err":bool,"ndata":..,"dataok":bool,"swok":bool,"reenc":bool}                 *)
(* A line is accepted iff it is what Apdu.tla specifies for those arguments.                        *)
EXTENDS Apdu, TLC, Json
VARIABLE l
Trace == ndJsonDeserialize("trace.ndjson")

CmdOK(t) == LET e == Encode(t.nc, t.ne) IN
            /\ t.lc = e.lc /\ t.le = e.le
            /\ t.total = TotalLen(e)
            /\ t.hdr /\ t.data
            /\ Parse(e) = << t.nc, t.ne >>

RspOK(t) == IF t.n < 2 THEN t.err
            ELSE /\ ~t.err /\ t.ndata = RespSplit(t.n).ndata /\ t.dataok /\ t.swok /\ t.reenc

LineOK(t) == IF t.k = "c" THEN CmdOK(t) ELSE RspOK(t)

Init == l = 1
Next == /\ l <= Len(Trace)
        /\ l' = l + 1
        /\ (LineOK(Trace[l]) \/ PrintT(<< "REJECT", l >>))
Done == (l = Len(Trace) + 1) => PrintT(<< "DONE", l - 1 >>)
=============================================================================
