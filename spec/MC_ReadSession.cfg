CONSTANTS
  MaxChunks = 1000
  Ladder <- LadderSeq
  MaxTlv = 65535
  SfiOffsets = FALSE
  MaxReads = 3
  MaxFaults = 2
  Files <- FilesQ
  KeepBuffer = FALSE
  ProbeOnce = FALSE
SPECIFICATION Spec
INVARIANTS ExactEach ReadableEach Bounded Emit
PROPERTY LeMonotone
