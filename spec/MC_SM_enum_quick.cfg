\* behaviour enumeration for replay (as built): every behaviour with at most one adversary move, 2 exchanges
CONSTANTS
  M = 16
  MaxEx = 2
  Statuses <- StatusSet
  Datas <- DataSet2
  InitSsc = {0}
  NakedRollback = TRUE
  AdvBudget = 2
SPECIFICATION Spec
INVARIANTS Emit
