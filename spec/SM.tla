--------------------------------- MODULE SM ---------------------------------
(***************************************************************************)
(* ICAO Doc 9303-11 section 9.8 secure messaging between the terminal      *)
(* (iso7816.NfcSession.DoAPDU + SecureMessaging.Encode/Decode), the chip    *)
(* and an active adversary on the link (C03, C10).                          *)
(*                                                                         *)
(* Cryptography is symbolic; every value is a record so that TLC can        *)
(* compare them:                                                            *)
(*   Mac(k, ssc, d87, d99)  the value of DO'8E'                             *)
(*   Enc(k, pt)             the value of DO'87' (pt = a data id)            *)
(* The adversary knows no session key; it can forward, withhold, alter,     *)
(* re-order, duplicate, delete and replay anything that crossed the link,   *)
(* inject unprotected answers and well-formed responses of another session. *)
(*                                                                         *)
(* One action per step of DoAPDU:                                           *)
(*   TermEncode       Encode(): SSC+1, protect the command                  *)
(*   AdvOnCommand(m)  pass | alter | withhold                               *)
(*   ChipProcess      9303-11: verify at SSC+1, answer at SSC+2 (any status, *)
(*                    with or without data); on a secure-messaging error     *)
(*                    answer unprotected and delete the session              *)
(*   AdvOnResponse(mv) the labelled moves of DESIGN.md Appendix B            *)
(*   TermDecode       the checks of SecureMessaging.Decode in code order     *)
(* NakedRollback is the as-built switch: the terminal decrements its SSC     *)
(* when it receives an unprotected (data-less) response.                     *)
(***************************************************************************)
EXTENDS Integers, Sequences, FiniteSets

CONSTANTS M,              \* SSC modulus (real: 2^64 / 2^128)
          MaxEx,          \* number of exchanges explored
          Statuses,       \* status words the chip may answer (protected)
          Datas,          \* response data ids the chip may choose (0 = no data)
          InitSsc,        \* set of initial counter values
          NakedRollback,  \* BOOLEAN, as-built
          AdvBudget       \* max adversary moves per behaviour (0 = honest link)

VARIABLES tSsc, cSsc, cAlive, phase, ex, wire, chipDid, seen, delivered, advMoves, hist

vars == << tSsc, cSsc, cAlive, phase, ex, wire, chipDid, seen, delivered, advMoves, hist >>

TK == "K1"      \* this session's keys (terminal and chip share them)
OK == "K2"      \* another session's keys

NoVal == [t |-> "none"]          \* absent value
Junk == [t |-> "junk"]           \* bytes the adversary made up
Sw(x) == [t |-> "sw", v |-> x]
NoWire == [kind |-> "none", dos |-> << >>, sw |-> 0]
NoChip == [cmd |-> 0, data |-> 0, sw |-> 0]
NoDelivery == [ok |-> FALSE]

Inc(x) == (x + 1) % M
Dec(x) == (x + M - 1) % M

Mac(k, ssc, d87, d99) == [t |-> "mac", k |-> k, ssc |-> ssc, d87 |-> d87, d99 |-> d99]
Enc(k, pt) == [t |-> "enc", k |-> k, pt |-> pt]
DO(tag, val) == [tag |-> tag, val |-> val]

\* the protected response the holder of key k produces at counter ssc for (data, sw)
Protected(k, ssc, data, sw) ==
  LET d87 == IF data = 0 THEN NoVal ELSE Enc(k, data)
      dos == (IF data = 0 THEN << >> ELSE << DO(87, d87) >>) \o << DO(99, Sw(sw)) >> \o << DO(142, Mac(k, ssc, d87, Sw(sw))) >>
  IN [kind |-> "tlv", dos |-> dos, sw |-> sw]

Naked(sw) == [kind |-> "naked", dos |-> << >>, sw |-> sw]
Garbage   == [kind |-> "garbage", dos |-> << >>, sw |-> 36864]
Short     == [kind |-> "short", dos |-> << >>, sw |-> 0]      \* fewer than two octets

SwSmError == 27016   \* 6988
Mv(n, i, x) == [name |-> n, i |-> i, x |-> x]

\* ---------------------------------------------------------------------------------------------
Init == /\ tSsc \in InitSsc /\ cSsc = tSsc /\ cAlive = TRUE
        /\ phase = "idle" /\ ex = 1
        /\ wire = NoWire /\ chipDid = NoChip /\ seen = << >> /\ delivered = NoDelivery /\ advMoves = 0
        /\ hist = << >>

\* Encode(): SSC+1, command MACed under (TK, SSC)
TermEncode == /\ phase = "idle" /\ ex <= MaxEx
              /\ tSsc' = Inc(tSsc)
              /\ wire' = [kind |-> "cmd", k |-> TK, ssc |-> Inc(tSsc), cmd |-> ex]
              /\ phase' = "cmd" /\ chipDid' = NoChip /\ delivered' = NoDelivery
              /\ UNCHANGED << cSsc, cAlive, ex, seen, advMoves, hist >>

\* the adversary decides what the chip receives
AdvOnCommand(m) ==
  /\ phase = "cmd"
  /\ \/ m = "pass" /\ wire' = wire /\ advMoves' = advMoves /\ phase' = "chip"
     \/ m = "alter" /\ advMoves < AdvBudget /\ wire' = [wire EXCEPT !.k = "junk"] /\ advMoves' = advMoves + 1 /\ phase' = "chip"
     \/ m = "withhold" /\ advMoves < AdvBudget /\ wire' = NoWire /\ advMoves' = advMoves + 1 /\ phase' = "resp"
  /\ hist' = Append(hist, [ex |-> ex, cmdMove |-> m, chip |-> [acc |-> FALSE, data |-> 0, sw |-> 0], respMove |-> Mv("none", 0, 0),
                             ret |-> [ok |-> FALSE, data |-> 0, sw |-> 0], tSsc |-> 0, cSsc |-> 0, cAlive |-> TRUE, authentic |-> TRUE])
  /\ UNCHANGED << tSsc, cSsc, cAlive, ex, chipDid, seen, delivered >>

\* the chip answers (d, sw) to a command it authenticated; anything else is a secure-messaging error
ChipAnswer(d, sw) ==
  /\ phase = "chip"
  /\ IF cAlive /\ wire.k = TK /\ wire.ssc = Inc(cSsc)
     THEN LET r == Protected(TK, Inc(Inc(cSsc)), d, sw) IN
            /\ cSsc' = Inc(Inc(cSsc)) /\ cAlive' = TRUE
            /\ chipDid' = [cmd |-> wire.cmd, data |-> d, sw |-> sw]
            /\ wire' = r /\ seen' = Append(seen, r)
            /\ hist' = [hist EXCEPT ![Len(hist)] = [@ EXCEPT !.chip = [acc |-> TRUE, data |-> d, sw |-> sw]] ]
     ELSE /\ cAlive' = FALSE /\ cSsc' = cSsc /\ chipDid' = NoChip      \* SM error: unprotected answer, session deleted
          /\ wire' = Naked(SwSmError) /\ seen' = seen
          /\ hist' = [hist EXCEPT ![Len(hist)] = [@ EXCEPT !.chip = [acc |-> FALSE, data |-> 0, sw |-> SwSmError]] ]
  /\ phase' = "resp"
  /\ UNCHANGED << tSsc, ex, delivered, advMoves >>

ChipProcess == \E d \in Datas, sw \in Statuses : ChipAnswer(d, sw)

\* sequence helpers
RemoveAt(s, i) == SubSeq(s, 1, i - 1) \o SubSeq(s, i + 1, Len(s))
InsertAt(s, i, x) == SubSeq(s, 1, i - 1) \o << x >> \o SubSeq(s, i, Len(s))
SwapAt(s, i) == [s EXCEPT ![i] = s[i + 1], ![i + 1] = s[i]]

\* first DO with a given tag, or NoVal
FirstVal(dos, tag) == IF \E i \in 1..Len(dos) : dos[i].tag = tag
                      THEN dos[CHOOSE i \in 1..Len(dos) : dos[i].tag = tag /\ \A j \in 1..(i - 1) : dos[j].tag # tag].val
                      ELSE NoVal

\* labelled adversary moves on the response; w is what is on the wire (NoWire if the command was withheld)
Apply(w, mv) ==
  CASE mv.name = "pass"     -> w
    [] mv.name = "short"    -> Short
    [] mv.name = "garbage"  -> Garbage
    [] mv.name = "naked"    -> Naked(mv.x)
    [] mv.name = "replay"   -> seen[mv.i]
    [] mv.name = "cross"    -> Protected(OK, Inc(tSsc), mv.i, mv.x)
    [] mv.name = "outersw"  -> [w EXCEPT !.sw = mv.x]
    [] mv.name = "doval"    -> [w EXCEPT !.dos[mv.i].val = IF w.dos[mv.i].tag = 99 THEN Sw(mv.x) ELSE Junk]
    [] mv.name = "both"     -> [w EXCEPT !.sw = mv.x, !.dos[mv.i].val = Sw(mv.x)]
    [] mv.name = "drop"     -> [w EXCEPT !.dos = RemoveAt(w.dos, mv.i)]
    [] mv.name = "dup"      -> [w EXCEPT !.dos = InsertAt(w.dos, mv.i, w.dos[mv.i])]
    [] mv.name = "swap"     -> [w EXCEPT !.dos = SwapAt(w.dos, mv.i)]
    [] mv.name = "extra"    -> [w EXCEPT !.dos = InsertAt(w.dos, mv.i, DO(128, Junk))]
    \* an unauthenticated DO'87': junk (i = 0) or the cryptogram of the earlier response i, in front of the genuine
    \* objects (x = 0) or behind them, i.e. after DO'8E' (x = 1: a decoder that MACs only what precedes the MAC
    \* object but looks data objects up anywhere would deliver it)
    [] mv.name = "forge87"  -> [w EXCEPT !.dos = InsertAt(w.dos, IF mv.x = 0 THEN 1 ELSE Len(w.dos) + 1,
                                                           DO(87, IF mv.i = 0 THEN Junk ELSE FirstVal(seen[mv.i].dos, 87)))]
    \* an unauthenticated DO'85' (the other cryptogram tag, which Decode prefers) in front of the genuine objects,
    \* carrying junk (i = 0) or the cryptogram of an earlier response (i = j): the genuine DO'87' / DO'99' / DO'8E' stay
    [] mv.name = "forge85"  -> [w EXCEPT !.dos = InsertAt(w.dos, IF mv.x = 0 THEN 1 ELSE Len(w.dos) + 1,
                                                           DO(133, IF mv.i = 0 THEN Junk ELSE FirstVal(seen[mv.i].dos, 87)))]

RespMoves(w) ==
  { Mv("short", 0, 0), Mv("garbage", 0, 0) }
  \cup { Mv("naked", 0, sw) : sw \in Statuses \cup {SwSmError} }
  \cup { Mv("replay", j, 0) : j \in 1..Len(seen) }
  \cup { Mv("cross", d, sw) : d \in Datas, sw \in Statuses }
  \cup (IF w.kind # "tlv" THEN {} ELSE
        { Mv("outersw", 0, sw) : sw \in Statuses \ {w.sw} }
        \cup { Mv("doval", i, sw) : i \in 1..Len(w.dos), sw \in Statuses \ {w.sw} }
        \cup { Mv("both", i, sw) : i \in {j \in 1..Len(w.dos) : w.dos[j].tag = 99}, sw \in Statuses \ {w.sw} }
        \cup { Mv("drop", i, 0) : i \in 1..Len(w.dos) }
        \cup { Mv("dup", i, 0) : i \in 1..Len(w.dos) }
        \cup { Mv("swap", i, 0) : i \in 1..(Len(w.dos) - 1) }
        \cup { Mv("extra", i, 0) : i \in 1..Len(w.dos) }
        \cup { Mv(n, j, x) : n \in {"forge87", "forge85"}, j \in {0} \cup {i \in 1..Len(seen) : FirstVal(seen[i].dos, 87) # NoVal}, x \in {0, 1} })

AdvMove(mv) ==
  /\ phase = "resp"
  /\ IF mv.name = "pass" THEN wire # NoWire /\ advMoves' = advMoves
     ELSE /\ mv \in RespMoves(wire) /\ Apply(wire, mv) # wire
          /\ \/ advMoves < AdvBudget /\ advMoves' = advMoves + 1
             \/ wire = NoWire /\ mv.name = "short" /\ advMoves >= AdvBudget /\ advMoves' = advMoves   \* nothing to forward
  /\ wire' = Apply(wire, mv)
  /\ hist' = [hist EXCEPT ![Len(hist)] = [@ EXCEPT !.respMove = mv] ]
  /\ phase' = "decode"
  /\ UNCHANGED << tSsc, cSsc, cAlive, ex, chipDid, seen, delivered >>

AdvOnResponse == \E mv \in RespMoves(wire) \cup { Mv("pass", 0, 0) } : AdvMove(mv)

\* SecureMessaging.Decode, check by check: result [ok, data, sw] and the new counter
DecodeResult(w, ssc) ==
  IF w.kind = "short" THEN [ok |-> FALSE, ssc |-> ssc]                        \* ParseRApdu fails: no counter change
  ELSE IF w.kind = "naked" THEN [ok |-> FALSE, ssc |-> IF NakedRollback THEN Dec(ssc) ELSE ssc]
  ELSE LET s == Inc(ssc) IN
       IF w.kind = "garbage" THEN [ok |-> FALSE, ssc |-> s]
       ELSE LET d85 == FirstVal(w.dos, 133) d87 == FirstVal(w.dos, 87) d99 == FirstVal(w.dos, 99) d8e == FirstVal(w.dos, 142) IN
            IF d8e = NoVal THEN [ok |-> FALSE, ssc |-> s]
            \* the MAC input is SSC || DO'85' || DO'87' || DO'99': the chip never sends a DO'85' here, so a response
            \* that carries one cannot have a matching MAC (it would be the object Decode decrypts and returns)
            ELSE IF d85 # NoVal THEN [ok |-> FALSE, ssc |-> s]
            ELSE IF d8e # Mac(TK, s, d87, d99) THEN [ok |-> FALSE, ssc |-> s]
            ELSE IF d99 = NoVal \/ d99.t # "sw" THEN [ok |-> FALSE, ssc |-> s]
            ELSE IF d99.v # w.sw THEN [ok |-> FALSE, ssc |-> s]
            ELSE IF d87 # NoVal /\ (d87.t # "enc" \/ d87.k # TK) THEN [ok |-> FALSE, ssc |-> s]
            ELSE [ok |-> TRUE, ssc |-> s, data |-> IF d87 = NoVal THEN 0 ELSE d87.pt, sw |-> d99.v]

TermDecode ==
  /\ phase = "decode"
  /\ LET r == DecodeResult(wire, tSsc) IN
     /\ tSsc' = r.ssc
     /\ delivered' = IF r.ok THEN [ok |-> TRUE, cmd |-> ex, data |-> r.data, sw |-> r.sw] ELSE NoDelivery
     /\ hist' = [hist EXCEPT ![Len(hist)] = [@ EXCEPT !.ret = [ok |-> r.ok, data |-> IF r.ok THEN r.data ELSE 0, sw |-> IF r.ok THEN r.sw ELSE 0],
                                                        !.tSsc = r.ssc, !.cSsc = cSsc, !.cAlive = cAlive,
                                                        !.authentic = (~r.ok \/ (chipDid # NoChip /\ chipDid.cmd = ex /\ chipDid.data = r.data /\ chipDid.sw = r.sw))] ]
  /\ phase' = "idle" /\ ex' = ex + 1 /\ wire' = NoWire
  /\ UNCHANGED << cSsc, cAlive, chipDid, seen, advMoves >>

Next == \/ TermEncode
        \/ \E m \in {"pass", "alter", "withhold"} : AdvOnCommand(m)
        \/ ChipProcess
        \/ AdvOnResponse
        \/ TermDecode

Spec == Init /\ [][Next]_vars

\* ---- properties --------------------------------------------------------------------------------
\* C03: whatever reaches the caller is what the chip produced for the command of that same exchange
Authentic == delivered.ok =>
                /\ chipDid # NoChip
                /\ chipDid.cmd = delivered.cmd
                /\ chipDid.data = delivered.data
                /\ chipDid.sw = delivered.sw

\* C10: on an honest link the counters agree whenever the terminal is idle, and the session survives
Lockstep == (advMoves = 0 /\ phase = "idle") => (tSsc = cSsc /\ cAlive)

\* C10: on an honest link every exchange is delivered (the following exchange still authenticates)
HonestDelivers == (advMoves = 0 /\ phase = "idle" /\ ex > 1) => delivered.ok

\* bound artefact guard: with a tiny modulus a full wrap would make old counters valid again
NoCounterReuse == 2 * MaxEx < M
=============================================================================
