--------------------------------- MODULE SM ---------------------------------
(***************************************************************************)
(* ICAO Doc 9303-11 section 9.8 secure messaging between the terminal      *)
(* (iso7816.NfcSession.DoAPDU + SecureMessaging.Encode/Decode), the chip    *)
(* and an active adversary on the link.  Cryptography is symbolic:          *)
(*   Mac(k, ssc, d87, d99)  -- the value of DO'8E'                          *)
(*   Enc(k, pt)             -- the value of DO'87' (pt = data id)           *)
(* The adversary knows no session key; it can forward, drop, alter,         *)
(* re-order, duplicate, delete and replay anything that crossed the link,   *)
(* inject unprotected answers and responses of another session (key OK).    *)
(*                                                                         *)
(* One action per step of DoAPDU:                                           *)
(*   TermEncode     Encode: SSC+1, protect the command                      *)
(*   AdvOnCommand   pass | alter | withhold                                 *)
(*   ChipProcess    9303-11: verify at SSC+1, answer at SSC+2 (any status,  *)
(*                  with or without data); on an SM error answer            *)
(*                  unprotected and delete the session                      *)
(*   AdvOnResponse  the moves of Appendix B of DESIGN.md                    *)
(*   TermDecode     the checks of SecureMessaging.Decode in code order      *)
(* NakedRollback is the as-built switch: the terminal decrements its SSC    *)
(* when it receives an unprotected (data-less) response.                    *)
(***************************************************************************)
EXTENDS Integers, Sequences, FiniteSets

CONSTANTS M,              \* SSC modulus (real: 2^64 / 2^128)
          MaxEx,          \* number of exchanges explored
          Statuses,       \* status words the chip may answer (protected)
          Datas,          \* response data ids (0 = no data)
          InitSsc,        \* set of initial counter values
          NakedRollback,  \* BOOLEAN, as-built
          AdvBudget       \* max adversary moves per behaviour (0 = honest link)

VARIABLES tSsc, cSsc, cAlive, phase, ex, wire, chipDid, seen, delivered, advMoves, usedSsc

vars == << tSsc, cSsc, cAlive, phase, ex, wire, chipDid, seen, delivered, advMoves, usedSsc >>

TK == "K1"      \* this session's keys (terminal and chip share them)
OK == "K2"      \* another session's keys
NoVal == [t |-> "none"]          \* absent value (all values are records so that TLC can compare them)
Junk == [t |-> "junk"]           \* bytes the adversary made up
Sw(x) == [t |-> "sw", v |-> x]
NoWire == [kind |-> "none", dos |-> << >>, sw |-> 0]
NoChip == [cmd |-> 0, data |-> 0, sw |-> 0]
NoDelivery == [ok |-> FALSE]

Inc(x) == (x + 1) % M
Dec(x) == (x + M - 1) % M

Mac(k, ssc, d87, d99) == [t |-> "mac", k |-> k, ssc |-> ssc, d87 |-> d87, d99 |-> d99]
Enc(k, pt) == [t |-> "enc", k |-> k, pt |-> pt]

\* a data object on the wire
DO(tag, val) == [tag |-> tag, val |-> val]

\* the protected response the holder of key k produces at counter ssc for (data, sw)
Protected(k, ssc, data, sw) ==
  LET d87 == IF data = 0 THEN NoVal ELSE Enc(k, data)
      dos == (IF data = 0 THEN << >> ELSE << DO(87, d87) >>) \o << DO(99, Sw(sw)) >> \o << DO(142, Mac(k, ssc, d87, Sw(sw))) >>
  IN [kind |-> "tlv", dos |-> dos, sw |-> sw]

Naked(sw) == [kind |-> "naked", dos |-> << >>, sw |-> sw]
Garbage   == [kind |-> "garbage", dos |-> << >>, sw |-> 36864]
Short     == [kind |-> "short", dos |-> << >>, sw |-> 0]      \* fewer than two octets

\* ---------------------------------------------------------------------------------------------
Init == /\ tSsc \in InitSsc /\ cSsc = tSsc /\ cAlive = TRUE
        /\ phase = "idle" /\ ex = 1
        /\ wire = NoWire /\ chipDid = NoChip /\ seen = {} /\ delivered = NoDelivery /\ advMoves = 0
        /\ usedSsc = {}

\* Encode(): SSC+1, command MACed under (TK, SSC)
TermEncode == /\ phase = "idle" /\ ex <= MaxEx
              /\ tSsc' = Inc(tSsc)
              /\ wire' = [kind |-> "cmd", k |-> TK, ssc |-> Inc(tSsc), cmd |-> ex]
              /\ phase' = "cmd" /\ chipDid' = NoChip /\ delivered' = NoDelivery
              /\ UNCHANGED << cSsc, cAlive, ex, seen, advMoves, usedSsc >>

\* the adversary decides what the chip receives
AdvOnCommand(m) ==
  /\ phase = "cmd"
  /\ \/ m = "pass" /\ wire' = wire /\ advMoves' = advMoves /\ phase' = "chip"
     \/ m = "alter" /\ advMoves < AdvBudget /\ wire' = [wire EXCEPT !.k = "junk"] /\ advMoves' = advMoves + 1 /\ phase' = "chip"
     \/ m = "withhold" /\ advMoves < AdvBudget /\ wire' = NoWire /\ advMoves' = advMoves + 1 /\ phase' = "resp"
  /\ UNCHANGED << tSsc, cSsc, cAlive, ex, chipDid, seen, delivered, usedSsc >>

\* the chip: 9303-11 9.8.
ChipProcess ==
  /\ phase = "chip"
  /\ IF cAlive /\ wire.k = TK /\ wire.ssc = Inc(cSsc)
     THEN \E d \in Datas, sw \in Statuses :
            LET r == Protected(TK, Inc(Inc(cSsc)), d, sw) IN
            /\ cSsc' = Inc(Inc(cSsc)) /\ cAlive' = TRUE
            /\ chipDid' = [cmd |-> wire.cmd, data |-> d, sw |-> sw]
            /\ wire' = r /\ seen' = seen \cup {r}
            /\ usedSsc' = usedSsc \cup {Inc(Inc(cSsc))}
     ELSE /\ cAlive' = FALSE /\ cSsc' = cSsc /\ chipDid' = NoChip      \* SM error: unprotected answer, session deleted
          /\ wire' = Naked(27016) /\ seen' = seen /\ usedSsc' = usedSsc   \* 6988
  /\ phase' = "resp"
  /\ UNCHANGED << tSsc, ex, delivered, advMoves >>

\* sequence helpers
RemoveAt(s, i) == SubSeq(s, 1, i - 1) \o SubSeq(s, i + 1, Len(s))
InsertAt(s, i, x) == SubSeq(s, 1, i - 1) \o << x >> \o SubSeq(s, i, Len(s))
SwapAt(s, i) == [s EXCEPT ![i] = s[i + 1], ![i + 1] = s[i]]

\* everything the adversary can present as a response, relative to what is on the wire (w) and what it has seen
AdvResponses(w) ==
  { Short, Garbage } \cup { Naked(sw) : sw \in Statuses \cup {27016} } \cup seen
  \cup { Protected(OK, s, d, sw) : s \in {Inc(tSsc)}, d \in Datas, sw \in Statuses }          \* cross-session, same counter
  \cup (IF w.kind # "tlv" THEN {} ELSE
        { [w EXCEPT !.sw = sw] : sw \in Statuses }                                           \* outer status replaced
        \cup { [w EXCEPT !.dos[i].val = IF w.dos[i].tag = 99 THEN Sw(sw) ELSE Junk] : i \in 1..Len(w.dos), sw \in Statuses }  \* one DO value altered
        \cup { [w EXCEPT !.sw = sw, !.dos[i].val = Sw(sw)] : i \in {j \in 1..Len(w.dos) : w.dos[j].tag = 99}, sw \in Statuses } \* both statuses
        \cup { [w EXCEPT !.dos = RemoveAt(w.dos, i)] : i \in 1..Len(w.dos) }                 \* delete a DO
        \cup { [w EXCEPT !.dos = InsertAt(w.dos, i, w.dos[i])] : i \in 1..Len(w.dos) }       \* duplicate a DO
        \cup { [w EXCEPT !.dos = SwapAt(w.dos, i)] : i \in 1..(Len(w.dos) - 1) }             \* re-order
        \cup { [w EXCEPT !.dos = InsertAt(w.dos, i, DO(128, Junk))] : i \in 1..Len(w.dos) } \* extra unauthenticated DO
        \cup { [w EXCEPT !.dos = InsertAt(w.dos, 1, DO(87, Junk))] })                      \* forged DO'87' in front

AdvOnResponse ==
  /\ phase = "resp"
  /\ \/ wire # NoWire /\ wire' = wire /\ advMoves' = advMoves                                  \* pass
     \/ advMoves < AdvBudget /\ \E r \in AdvResponses(wire) : r # wire /\ wire' = r /\ advMoves' = advMoves + 1
     \/ wire = NoWire /\ advMoves >= AdvBudget /\ wire' = Short /\ advMoves' = advMoves           \* nothing to forward
  /\ phase' = "decode"
  /\ UNCHANGED << tSsc, cSsc, cAlive, ex, chipDid, seen, delivered, usedSsc >>

\* first DO with a given tag, or None
FirstVal(dos, tag) == IF \E i \in 1..Len(dos) : dos[i].tag = tag
                      THEN dos[CHOOSE i \in 1..Len(dos) : dos[i].tag = tag /\ \A j \in 1..(i - 1) : dos[j].tag # tag].val
                      ELSE NoVal

\* SecureMessaging.Decode, check by check
TermDecode ==
  /\ phase = "decode"
  /\ LET w == wire IN
     IF w.kind = "short" THEN                                  \* ParseRApdu fails: no counter change
          /\ tSsc' = tSsc /\ delivered' = [ok |-> FALSE]
     ELSE IF w.kind = "naked" THEN                             \* no data: as-built roll-back
          /\ tSsc' = IF NakedRollback THEN Dec(tSsc) ELSE tSsc
          /\ delivered' = [ok |-> FALSE]
     ELSE LET s == Inc(tSsc) IN
          /\ tSsc' = s
          /\ IF w.kind = "garbage" THEN delivered' = [ok |-> FALSE]
             ELSE LET d87 == FirstVal(w.dos, 87) d99 == FirstVal(w.dos, 99) d8e == FirstVal(w.dos, 142) IN
                  IF d8e = NoVal THEN delivered' = [ok |-> FALSE]
                  ELSE IF d8e # Mac(TK, s, d87, d99) THEN delivered' = [ok |-> FALSE]
                  ELSE IF d99 = NoVal \/ d99.t # "sw" THEN delivered' = [ok |-> FALSE]
                  ELSE IF d99.v # w.sw THEN delivered' = [ok |-> FALSE]
                  ELSE IF d87 # NoVal /\ (d87.t # "enc" \/ d87.k # TK) THEN delivered' = [ok |-> FALSE]
                  ELSE delivered' = [ok |-> TRUE, cmd |-> ex, data |-> IF d87 = NoVal THEN 0 ELSE d87.pt, sw |-> d99.v]
  /\ phase' = "idle" /\ ex' = ex + 1 /\ wire' = NoWire
  /\ UNCHANGED << cSsc, cAlive, chipDid, seen, advMoves, usedSsc >>

Next == \/ TermEncode
        \/ \E m \in {"pass", "alter", "withhold"} : AdvOnCommand(m)
        \/ ChipProcess
        \/ AdvOnResponse
        \/ TermDecode

Spec == Init /\ [][Next]_vars

\* ---- properties --------------------------------------------------------------------------------
\* C03: whatever reaches the caller is what the chip produced for the command of that same exchange
Authentic == delivered.ok =>
                /\ chipDid # NoChip
                /\ chipDid.cmd = delivered.cmd
                /\ chipDid.data = delivered.data
                /\ chipDid.sw = delivered.sw

\* C10: on an honest link the counters agree whenever the terminal is idle, and the session survives
Lockstep == (advMoves = 0 /\ phase = "idle") => (tSsc = cSsc /\ cAlive)

\* C10: on an honest link every exchange is delivered (the following exchange still authenticates)
HonestDelivers == (advMoves = 0 /\ phase = "idle" /\ ex > 1) => delivered.ok

\* bound artefact guard: with a tiny modulus a full wrap would make old counters valid again
NoCounterReuse == Cardinality(usedSsc) * 2 <= M
=============================================================================
