INIT Init
NEXT Next
INVARIANTS Inv1 Inv2 Inv3 AsBuiltGap AsBuiltMalleable Inv4 Reproduces FieldTamperDetected FileTamperDetected OnlyJointPasses EmitV
