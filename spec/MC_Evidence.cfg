INIT Init
NEXT Next
INVARIANTS Inv1 Inv2 Inv3 AsBuiltGap Reproduces FieldTamperDetected FileTamperDetected OnlyJointPasses EmitV
