------------------------------ MODULE MC_Session ------------------------------
(* All chip configurations x reader options: the fault-free expected outcome satisfies the C08 and   *)
(* C02 clauses; every active step has a defined continuation under a link fault.  Emit prints the     *)
(* expected outcome of each (configuration, options), replayed into reader.ReadDocument.               *)
EXTENDS Session, TLC
VARIABLES c, o
DgSets == { {}, {2}, {11, 13}, {2, 7, 11, 12, 13, 16} }
Configs == [access : {"bac", "pace", "pace+bac", "cam", "cam+bac"}, dgs : DgSets, aa : {"none", "rsa", "ecdsa"}, ca : BOOLEAN,
            trusted : BOOLEAN, kind : {"genuine", "clone-copy", "clone-own-keys", "strip14", "strip15", "downgrade"}]
Options == [skipPace : BOOLEAN, skipImages : BOOLEAN, pw : {"mrz", "can"}]
\* meaningless combinations are left out: a CAM chip needs a static key (ca); stripping a file that does not exist
Sensible(cc) == /\ (cc.access \in {"cam", "cam+bac"} => cc.ca)
                /\ (cc.kind = "strip14" => 14 \in Listed(cc))
                /\ (cc.kind = "strip15" => 15 \in Listed(cc))
                /\ (cc.kind = "downgrade" => HasPace(cc))
                /\ (cc.kind \in {"clone-copy", "clone-own-keys"} => (cc.ca \/ cc.aa # "none"))
Init == c \in { cc \in Configs : Sensible(cc) } /\ o \in Options
Next == UNCHANGED << c, o >>
InvC08 == C08(c, o)
InvC02 == C02(c, o)
InvFault == (\A i \in 1..Len(Steps) : FaultSafe(c, o, Steps[i])) /\ ContinuationsSound
Emit == PrintT(<< "T", c, o, Expected(c, o) >>)
=============================================================================
