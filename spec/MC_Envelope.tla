----------------------------- MODULE MC_Envelope -----------------------------
EXTENDS Envelope, TLC
CONSTANT FileKinds
VARIABLES d, s, l, comp
Init == d \in SUBSET FileKinds /\ s \in SUBSET {"paceCam", "chipAuth", "activeAuth"} /\ l \in Levels /\ comp \in Components
Next == UNCHANGED << d, s, l, comp >>
InvRoundTrip == RoundTrip(d, s)
InvDetects == Detects(d, s, l, comp)
InvForeign == ForeignOrNewer(d, s)
InvExpected == (ExpectedOutcome(l, comp) = "reject") => AfterCorruption(d, s, l, comp) = Rejected
Emit == (d = {} /\ s = {}) => PrintT(<< "T", l, comp, ExpectedOutcome(l, comp) >>)
=============================================================================
