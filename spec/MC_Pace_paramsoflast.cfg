\* the design keeping the domain parameters of the LAST usable entry: protocol and curve of different entries
CONSTANT EchoCheck = TRUE
CONSTANT ParamsOfLast = TRUE
INIT Init
NEXT Next
INVARIANTS CoupledInv
