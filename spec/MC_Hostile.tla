------------------------------ MODULE MC_Hostile ------------------------------
EXTENDS Hostile, TLC
VARIABLE p
Init == p \in Plans
Next == UNCHANGED p
ASSUME GrammarOK      \* evaluated once
Emit == PrintT(<< "P", p.base, p.op, p.target, EntryPoints(p.base) >>)
=============================================================================
