-------------------------------- MODULE Pace --------------------------------
(***************************************************************************)
(* Doc 9303-11 section 4.4: PACE with generic mapping (GM) and chip          *)
(* authentication mapping (CAM) over elliptic curves (C04, CAM part of C06). *)
(*                                                                         *)
(* Symbolic Diffie-Hellman: a point is [g |-> generator, s |-> set of        *)
(* scalars]; DH(a, P) adds a to the set.  The mapped generator is the term    *)
(* [map |-> nonce, h |-> shared point].  Keys, tokens and cryptograms are     *)
(* records.  The run is a straight line of five exchanges; `dev' names the    *)
(* single chip message that is altered on the way (or the terminal using a    *)
(* different password); altered values are unrelated to the genuine ones      *)
(* except for the explicitly modelled "echo" (the terminal's own key sent      *)
(* back).                                                                     *)
(***************************************************************************)
EXTENDS Integers, FiniteSets, Sequences

Mappings == {"GM", "CAM"}
Devs == {"none", "password", "nonce", "mapkey", "mapkey-echo", "kakey", "kakey-echo", "reflect", "token", "token-echo", "ecad", "ecad-absent",
         "sw-mse", "sw-nonce", "sw-map", "sw-ka", "sw-token", "cardsec-key"}
\* A run has up to TWO deviations (dev, dev2): coordinated alterations of two messages are where single-message
\* reasoning breaks down - "reflect" is nothing but the pair {kakey-echo, token-echo}, and TLC finds it among the pairs.
DevSeq == << "password", "nonce", "mapkey", "mapkey-echo", "kakey", "kakey-echo", "token", "token-echo", "ecad", "ecad-absent",
             "sw-mse", "sw-nonce", "sw-map", "sw-ka", "sw-token", "cardsec-key" >>
Pos(x) == CHOOSE i \in 1..Len(DevSeq) : DevSeq[i] = x
SameMessage == {{"mapkey", "mapkey-echo"}, {"kakey", "kakey-echo"}, {"token", "token-echo"}, {"ecad", "ecad-absent"}}
Compatible(a, b) == /\ a \in {DevSeq[i] : i \in 1..Len(DevSeq)} /\ b \in {DevSeq[i] : i \in 1..Len(DevSeq)}
                    /\ Pos(a) < Pos(b) /\ {a, b} \notin SameMessage
\* "reflect": a counterpart that knows NO password: it relays the nonce / mapping steps of a chip (or makes them up),
\* sends the terminal's own key agreement key back and then the terminal's own token T_IFD as T_IC. With
\* PK_IC = PK_IFD both tokens are MACs of the same key over the same point, so only the comparison of the two public
\* keys (Doc 9303-11 4.4.1 d) stands between it and success.  EchoCheck = FALSE is the design without that comparison.
CONSTANTS EchoCheck, ParamsOfLast

VARIABLES mapping, dev, dev2, done, termResult, camResult, termSM, chipSM, chipCompleted, chipCamGenuine

vars == << mapping, dev, dev2, done, termResult, camResult, termSM, chipSM, chipCompleted, chipCamGenuine >>
\* the set of deviations of this run
D == ({dev, dev2} \ {"none", "reflect"}) \cup (IF "reflect" \in {dev, dev2} THEN {"kakey-echo", "token-echo"} ELSE {})
Has(x) == x \in D

\* uniform shapes (TLC cannot compare a string with a record):
\*   generator [nonce : STRING, h : set of scalars]   (the base generator is ["-", {}])
\*   point     [g : generator, s : set of scalars]
\*   keys      [from : point]      token [k : keys, x : point]
Gen(nonce, h) == [nonce |-> nonce, h |-> h]
G == Gen("-", {})
Pt(g, s) == [g |-> g, s |-> s]
DH(a, P) == [g |-> P.g, s |-> P.s \cup {a}]
MapGen(nonce, H) == Gen(nonce, H.s)           \* H is always a point on the base generator
Keys(K) == [from |-> K]
NoKeys == Keys(Pt(G, {"none"}))
JunkKeys == Keys(Pt(G, {"junk"}))
Mac(k, x) == [k |-> k, x |-> x]

\* scalars and nonce of this run
mapT == "mapT" mapC == "mapC" kaT == "kaT" kaC == "kaC" adv == "adv" skIC == "skIC"
Nonce == "s"

\* what the terminal decrypts as nonce: the chip's nonce iff same password and z unaltered
TermNonce == IF Has("password") \/ Has("nonce") THEN "s-other" ELSE Nonce

\* the chip's mapping public key as received by the terminal
PubMapC_chip == Pt(G, {mapC})
PubMapC_term == CASE Has("mapkey") -> Pt(G, {adv})
                  [] Has("mapkey-echo") -> Pt(G, {mapT})
                  [] OTHER -> PubMapC_chip

\* mapped generators on both sides
Gchip == MapGen(Nonce, DH(mapC, Pt(G, {mapT})))
Gterm == MapGen(TermNonce, DH(mapT, PubMapC_term))

PubKaT == Pt(Gterm, {kaT})                                 \* terminal's key agreement key (on ITS generator)
PubKaC_chip == Pt(Gchip, {kaC})
PubKaC_term == CASE Has("kakey") -> Pt(Gchip, {adv})
                 [] Has("kakey-echo") -> PubKaT
                 [] OTHER -> PubKaC_chip

Kterm == DH(kaT, PubKaC_term)
\* the chip multiplies whatever point it received by kaC; on its generator that is:
Kchip == IF Gterm = Gchip THEN DH(kaC, Pt(Gchip, {kaT})) ELSE Pt(Gen("mismatch", {}), {kaC, kaT})

\* tokens: T_IFD = MAC(KSmac, PK_DH,IC) ; T_IC = MAC(KSmac, PK_DH,IFD)
TIFD == Mac(Keys(Kterm), PubKaC_term)
TIC_chip == Mac(Keys(Kchip), PubKaT)
TIC_term == IF Has("token") THEN Mac(JunkKeys, PubKaT) ELSE IF Has("token-echo") THEN TIFD ELSE TIC_chip

\* the chip accepts the terminal's token iff it is the MAC under ITS keys over ITS public key
ChipAcceptsToken == TIFD = Mac(Keys(Kchip), PubKaC_chip)

\* terminal-side checks that abort before the token exchange
EchoDetected == EchoCheck /\ (PubMapC_term = Pt(G, {mapT}) \/ PubKaC_term = PubKaT)

StatusError == D \cap {"sw-mse", "sw-nonce", "sw-map", "sw-ka", "sw-token"} # {}

\* chip authentication data: CA_IC with CA_IC * PK_IC = PK_Map,IC ; encrypted under KSenc
\* the terminal recovers it iff the cryptogram is intact, and checks it against the key in CardSecurity
\* ("ecad-absent": a counterpart that knows the password but not the static private key simply leaves the object out)
CamOK == /\ mapping = "CAM" /\ D \cap {"ecad", "ecad-absent"} = {}
         /\ ~Has("cardsec-key")                            \* CardSecurity publishes another key than the chip used

Init == /\ mapping \in Mappings /\ dev \in Devs
        /\ (dev2 = "none" \/ (dev2 \in Devs /\ Compatible(dev, dev2)))
        /\ (D \cap {"ecad", "ecad-absent", "cardsec-key"} # {} => mapping = "CAM")
        /\ done = FALSE /\ termResult = "none" /\ camResult = "none" /\ termSM = NoKeys /\ chipSM = NoKeys
        /\ chipCompleted = FALSE /\ chipCamGenuine = FALSE

Run == /\ ~done /\ done' = TRUE
       /\ LET tokenPhase == ~StatusError /\ ~EchoDetected
              chipOK == tokenPhase /\ ChipAcceptsToken                      \* else the chip answers 6300 to T_IFD
              answered == IF Has("token-echo") THEN tokenPhase ELSE chipOK     \* a counterpart that echoes the token answers 9000 itself
              termOK == answered /\ TIC_term = Mac(Keys(Kterm), PubKaT)
          IN /\ chipCompleted' = chipOK
             /\ chipSM' = IF chipOK THEN Keys(Kchip) ELSE NoKeys
             /\ chipCamGenuine' = (chipOK /\ mapping = "CAM")
             /\ termSM' = IF termOK THEN Keys(Kterm) ELSE NoKeys
             /\ IF ~termOK THEN termResult' = "failure" /\ camResult' = "none"
                ELSE IF mapping = "GM" THEN termResult' = "success" /\ camResult' = "none"
                ELSE IF CamOK THEN termResult' = "success" /\ camResult' = "success"
                ELSE termResult' = "failure" /\ camResult' = "none"           \* as built: PACE reported failed, session stays
       /\ UNCHANGED << mapping, dev, dev2 >>

Next == Run \/ (done /\ UNCHANGED vars)

\* ---- properties ------------------------------------------------------------------------------
\* (a) no deviation: success, both sides hold the same session keys
Completeness == (done /\ D = {}) => (termResult = "success" /\ chipCompleted /\ termSM = chipSM /\ termSM # NoKeys
                                           /\ (mapping = "CAM" => camResult = "success"))
\* (b) different password or an altered nonce / mapping key / agreement key / token: failure, no session
FailClosed == (done /\ D \cap {"password", "nonce", "mapkey", "mapkey-echo", "kakey", "kakey-echo", "token", "token-echo"} # {}) =>
                 (termResult = "failure" /\ termSM = NoKeys /\ camResult # "success")
\* (c) only the encrypted chip authentication data altered (or a foreign key published): CAM not successful
CamGated == (done /\ D \cap {"ecad", "ecad-absent", "cardsec-key"} # {}) => camResult # "success"
\* success always means shared keys with the chip
Agreement == (done /\ termResult = "success") => (termSM = chipSM /\ chipCompleted)
\* a status error at any step is a failure without session
StatusFails == (done /\ StatusError) => (termResult = "failure" /\ termSM = NoKeys)

\* ---- protocol selection (selectPaceConfig) -----------------------------------------------------
\* an advertised PACEInfo is [fam |-> "ecdh-gm" | "ecdh-cam" | "dh-gm" | "dh-im" | "ecdh-im" | "unknown", w |-> weight]
Supported(i) == i.fam \in {"ecdh-gm", "ecdh-cam"}
Known(i) == i.fam # "unknown"
\* as built: the known entry of greatest weight
AsBuiltSelect(S) == IF \E i \in S : Known(i)
                    THEN CHOOSE i \in S : Known(i) /\ \A j \in S : Known(j) => j.w <= i.w
                    ELSE [fam |-> "none", w |-> 0]
SelectOK(S) == (\E i \in S : Supported(i)) => Supported(AsBuiltSelect(S))

\* The selection as the loop it is (selectPaceConfig walks the PACEInfos in file order): an entry additionally carries its
\* parameter id `pid`; the loop keeps the best entry so far AND the domain parameters that go with it. The configuration
\* handed to MSE:Set AT is (protocol of the kept entry, kept parameter id): it must be ONE advertised entry, not a mixture.
\*   ParamsOfLast   the design that resolves the domain parameters of every usable entry while walking and keeps the
\*                  last resolved ones (protocol of the preferred entry, curve of another)
NoEntry == [fam |-> "none", w |-> 0, pid |-> -1]
RECURSIVE SelectFold(_, _, _, _)
SelectFold(seq, k, best, pid) ==
  IF k > Len(seq) THEN [fam |-> best.fam, w |-> best.w, pid |-> pid]
  ELSE LET e == seq[k] IN
       IF ~Known(e) THEN SelectFold(seq, k + 1, best, pid)
       ELSE IF best = NoEntry \/ e.w > best.w THEN SelectFold(seq, k + 1, e, e.pid)
       ELSE SelectFold(seq, k + 1, best, IF ParamsOfLast THEN e.pid ELSE pid)
SelectedConfig(seq) == SelectFold(seq, 1, NoEntry, -1)
Coupled(seq) == LET cfg == SelectedConfig(seq) IN cfg.fam # "none" => \E k \in 1..Len(seq) : seq[k] = cfg
=============================================================================
