------------------------------- MODULE Verdict -------------------------------
(***************************************************************************)
(* Mapping from the recorded per-step outcomes of a session to the summary  *)
(* verdicts (C02).  A session outcome vector s is a record                   *)
(*   pa      \in {"absent", "error", "failed", "ok"}   passive authentication (error = no result   *)
(*                                                     object but an error recorded)              *)
(*   cardsec \in BOOLEAN    the card security object was itself authenticated (only with pa # absent)*)
(*   aa, cam, ca \in {"absent", "failed", "ok"}         AA / PACE-CAM / CA                          *)
(*   complete \in BOOLEAN   the structural completeness check passed                              *)
(* Intended design = the statement of the property; AsBuilt* = what document/session.go does.      *)
(***************************************************************************)
EXTENDS Integers

Outcomes3 == {"absent", "failed", "ok"}
PaOutcomes == {"absent", "error", "failed", "ok"}

Vectors == [pa : PaOutcomes, cardsec : BOOLEAN, aa : Outcomes3, cam : Outcomes3, ca : Outcomes3, complete : BOOLEAN]

PaOK(s) == s.pa = "ok"

\* ---- as built (document_ex.go Summary, session.go) -----------------------------------------------
AsBuiltDataTrusted(s) == s.complete /\ PaOK(s)

AsBuiltProtocolStatus(s) == IF s.aa = "ok" THEN "AA"
                            ELSE IF s.cam = "ok" THEN "PACE_CAM"
                            ELSE IF s.ca = "ok" THEN "CA"
                            ELSE "NONE"

AsBuiltVerified(s) == IF ~PaOK(s) THEN "NONE"
                      ELSE IF AsBuiltProtocolStatus(s) = "PACE_CAM" /\ ~s.cardsec THEN "NONE"
                      ELSE AsBuiltProtocolStatus(s)

\* ---- the property, as predicates on ANY verdict function ----------------------------------------
\* data trusted only when PA succeeded and the completeness check passed
TrustGated(s, trusted) == trusted => (PaOK(s) /\ s.complete)

Succeeded(s, mech) == CASE mech = "AA" -> s.aa = "ok" [] mech = "PACE_CAM" -> s.cam = "ok" [] mech = "CA" -> s.ca = "ok" [] OTHER -> FALSE

\* a mechanism is named only when it succeeded and PA succeeded (PACE-CAM: and CardSecurity authenticated)
AuthGated(s, mech) == mech # "NONE" => /\ Succeeded(s, mech)
                                       /\ PaOK(s)
                                       /\ (mech = "PACE_CAM" => s.cardsec)

\* the unverified protocol status may name a mechanism only if that protocol succeeded
ProtoGated(s, mech) == mech # "NONE" => Succeeded(s, mech)
=============================================================================
