CONSTANTS
  Part = "enum"
  G = {"g1", "g2"}
  Programs <- ProgEnum3
  NExch = 2  WholeCall = TRUE  Locked = TRUE  NotifyInside = TRUE
  V = {"v1"} DocOf <- DocOf1 SignTime <- SignTimeAB ValidAt <- ValidAtAB PerCallContext = TRUE
  C = {"c1"}
INIT Init
NEXT Next
INVARIANTS Mutex NoInterleaving Linearizable Emit
