CONSTANTS
  MaxChunks = 1000
  Ladder <- LadderSeq
  MaxTlv = 65535
  SfiOffsets = TRUE
INIT TraceInit
NEXT TraceNext
INVARIANTS TraceDone
