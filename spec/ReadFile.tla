------------------------------ MODULE ReadFile ------------------------------
(***************************************************************************)
(* Reading one elementary file (iso7816.NfcSession.ReadFile) from a chip    *)
(* that follows ISO/IEC 7816-4 / Doc 9303-10 3.5: SELECT by file id, READ   *)
(* BINARY of the first four octets, total length from the top-level TLV     *)
(* header, then a loop of READ BINARY at offset = octets so far with        *)
(* Le = min(maxLe, remaining), the first block with a fall-back ladder of    *)
(* smaller Le values, at most MaxChunks loop reads.                          *)
(*                                                                         *)
(* File contents are abstract: the EF holds EfLen octets, the first H + V of  *)
(* which are the top-level data object (H header octets: 1-2 identifier      *)
(* octets + 1-3 length octets; V value octets).  What matters for exactness   *)
(* is WHERE each received octet came from, so the terminal's buffer is        *)
(* summarised by its length and two flags:                                   *)
(*   contiguous  every chunk so far came from the selected EF at the offset   *)
(*               equal to the number of octets already held                   *)
(*   foreign     some chunk was served under short-EF-identifier semantics    *)
(*               (P1 bit 8 set), i.e. from another file / another offset      *)
(*                                                                         *)
(* The chip is a separate process: ChipAnswer chooses how many octets it      *)
(* returns (any number from 1 up to what was asked / what it has / its cap)   *)
(* or a status word.                                                         *)
(*                                                                         *)
(* As-built switches (DESIGN.md 3.2):                                         *)
(*   SfiOffsets   offsets >= 32768 are sent in P1 with bit 8 set (as built)   *)
(*                instead of being refused                                    *)
(***************************************************************************)
EXTENDS Integers, Sequences

CONSTANTS MaxChunks, Ladder, SfiOffsets, MaxTlv

VARIABLES cfg,        \* [h, v, ef, maxLe0, cap, rejectOver, hdrN, policy, selSw]: file and chip (fixed per behaviour)
          pc,         \* "select" | "hdr" | "loop" | "chip" | "done"
          buf,        \* octets held by the terminal
          hdrGot,     \* octets returned by the header read
          contiguous, foreign,
          total,      \* total length computed from the header (-1 before)
          maxLe,      \* current maximum read size
          chunks,     \* loop reads performed
          ladder,     \* 0 = not in fall-back; k = trying Ladder[k]; (first block only)
          req,        \* the READ BINARY on the wire: [off, le, p1, p2] or NoReq
          result      \* "none" | "exact" | "notfound" | "err"

vars == << cfg, pc, buf, hdrGot, contiguous, foreign, total, maxLe, chunks, ladder, req, result >>

NoReq == [off |-> -1, le |-> 0, p1 |-> 0, p2 |-> 0]
Min(a, b) == IF a < b THEN a ELSE b

Req(off, le) == [off |-> off, le |-> le, p1 |-> (off \div 256) % 256, p2 |-> off % 256]

\* ---- terminal -------------------------------------------------------------------------------
\* SELECT: chip answers cfg.selSw
Select ==
  /\ pc = "select"
  /\ IF cfg.selSw = "9000" THEN pc' = "hdr" /\ result' = result
     ELSE IF cfg.selSw \in {"6A82", "6283"} THEN pc' = "done" /\ result' = "notfound"    \* 6283: documented accommodation
     ELSE pc' = "done" /\ result' = "err"
  /\ UNCHANGED << cfg, buf, hdrGot, contiguous, foreign, total, maxLe, chunks, ladder, req >>

\* READ BINARY(0, 4)
HdrIssue ==
  /\ pc = "hdr" /\ req = NoReq
  /\ req' = Req(0, 4) /\ pc' = "chiphdr"
  /\ UNCHANGED << cfg, buf, hdrGot, contiguous, foreign, total, maxLe, chunks, ladder, result >>

\* header accepted: n octets (n <= 4), total from the identifier+length octets actually parsed
HdrReject == /\ pc' = "done" /\ result' = "err" /\ req' = NoReq
             /\ UNCHANGED << cfg, buf, hdrGot, contiguous, foreign, total, maxLe, chunks, ladder >>

HdrAccept(n) ==
  IF n > 4 THEN HdrReject ELSE                        \* more than requested
  /\ buf' = n /\ hdrGot' = n /\ req' = NoReq
  /\ IF n < cfg.h THEN                              \* header incomplete: the length cannot be parsed
          /\ pc' = "done" /\ result' = "err" /\ total' = total
     ELSE IF cfg.v > MaxTlv THEN
          /\ pc' = "done" /\ result' = "err" /\ total' = total
     ELSE LET t == cfg.h + cfg.v IN
          /\ total' = t
          /\ IF n >= t THEN pc' = "done" /\ result' = "exact"      \* the object fits in the header read
             ELSE pc' = "loop" /\ result' = result
  /\ UNCHANGED << cfg, contiguous, foreign, maxLe, chunks, ladder >>

\* loop: issue the next READ BINARY
LoopIssue ==
  /\ pc = "loop" /\ req = NoReq
  /\ IF chunks >= MaxChunks /\ ladder = 0 THEN
          /\ pc' = "done" /\ result' = "err" /\ req' = req /\ chunks' = chunks
     ELSE LET remaining == total - buf
              lim == IF ladder = 0 THEN maxLe ELSE Ladder[ladder]
          IN IF buf >= 32768 /\ ~SfiOffsets THEN
                  /\ pc' = "done" /\ result' = "err" /\ req' = req /\ chunks' = chunks
             ELSE /\ req' = Req(buf, Min(lim, remaining))
                  /\ chunks' = IF ladder = 0 THEN chunks + 1 ELSE chunks
                  /\ pc' = "chip" /\ result' = result
  /\ UNCHANGED << cfg, buf, hdrGot, contiguous, foreign, total, maxLe, ladder >>

\* next applicable ladder step strictly below the configured maximum, 0 if none
RECURSIVE NextLadder(_)
NextLadder(k) == IF k > Len(Ladder) THEN 0 ELSE IF Ladder[k] < maxLe THEN k ELSE NextLadder(k + 1)

\* the chip answered the loop read with an error status, or with more octets than requested
\* (ReadBinaryFromOffset fails): first block => fall back along the ladder, otherwise give up
LoopReject ==
  /\ IF buf <= 4 /\ (IF ladder = 0 THEN NextLadder(1) ELSE NextLadder(ladder + 1)) # 0 THEN
          /\ ladder' = (IF ladder = 0 THEN NextLadder(1) ELSE NextLadder(ladder + 1))
          /\ pc' = "loop" /\ result' = result
     ELSE /\ pc' = "done" /\ result' = "err" /\ ladder' = ladder
  /\ req' = NoReq
  /\ UNCHANGED << cfg, buf, hdrGot, contiguous, foreign, total, maxLe, chunks >>

\* the chip answered the loop read with n data octets and status 9000
LoopAccept(n) ==
  IF n > req.le THEN LoopReject
  ELSE
  /\ IF n < 1 THEN                                  \* "didn't receive any data"
          /\ pc' = "done" /\ result' = "err"
          /\ UNCHANGED << buf, contiguous, foreign, maxLe, ladder >>
     ELSE /\ buf' = buf + n
          /\ foreign' = (foreign \/ req.p1 >= 128)
          /\ contiguous' = (contiguous /\ req.p1 < 128)
          /\ maxLe' = IF ladder = 0 THEN maxLe ELSE Ladder[ladder]     \* the working Le is kept
          /\ ladder' = 0
          /\ IF buf + n >= total THEN pc' = "done" /\ result' = "exact"   \* n <= le <= remaining: equality
             ELSE pc' = "loop" /\ result' = result
  /\ req' = NoReq
  /\ UNCHANGED << cfg, hdrGot, total, chunks >>

\* ---- chip (ISO 7816-4 READ BINARY, even INS) ------------------------------------------------------
\* how many octets a conforming chip may return for the request
ChipMax(r) == LET avail == cfg.ef - r.off
                  c == IF cfg.cap = 0 THEN r.le ELSE Min(cfg.cap, r.le)
              IN Min(c, avail)

Returnable(r) == LET mx == ChipMax(r) IN
                 IF mx < 1 THEN {}
                 ELSE CASE cfg.policy = "max"  -> {mx}
                        [] cfg.policy = "one"  -> {1}
                        [] cfg.policy = "half" -> {(mx + 1) \div 2}
                        [] cfg.policy = "any"  -> {1, (mx + 1) \div 2, mx}

ChipHdr ==
  /\ pc = "chiphdr"
  /\ \/ \E n \in {Min(Min(cfg.hdrN, 4), cfg.ef)} : HdrAccept(n)
     \/ cfg.hdrN = 0 /\ HdrReject

ChipLoop ==
  /\ pc = "chip"
  /\ IF req.p1 >= 128 THEN                          \* short EF identifier semantics: not our file/offset
          \/ LoopAccept(req.le)                      \* some other file (or the current one from offset P2) has data there
          \/ LoopReject                              \* no such EF: 6A82
     ELSE IF cfg.rejectOver # 0 /\ req.le > cfg.rejectOver THEN LoopReject      \* 6700
     ELSE IF req.off >= cfg.ef THEN LoopReject       \* 6B00
     ELSE \E n \in Returnable(req) : LoopAccept(n)

Done == pc = "done" /\ UNCHANGED vars

Next == Select \/ HdrIssue \/ ChipHdr \/ LoopIssue \/ ChipLoop \/ Done

\* ---- properties ------------------------------------------------------------------------------------
\* exactly the stored top-level object: right file, right offsets, right length
Exact     == result = "exact" => (contiguous /\ ~foreign /\ buf >= cfg.h + cfg.v /\ total = cfg.h + cfg.v)
\* not found only when the chip said so
NotFound  == result = "notfound" => cfg.selSw \in {"6A82", "6283"}
\* the inductive invariant of ReadLoop.tla (discharged there by Apalache for every size and read size), in this
\* module's variables: TLC checks that it holds in every reachable state of THIS model too, which ties the two together
LoopInv   == ~SfiOffsets =>
               /\ (pc \in {"loop", "chip"} => total = cfg.h + cfg.v /\ buf < total /\ contiguous /\ ~foreign)
               /\ (pc = "chip" => req.off = buf /\ req.le >= 1 /\ req.le <= total - buf /\ req.off < 32768)
\* bounded work
Bounded   == chunks <= MaxChunks
Terminates == <>(pc = "done")
=============================================================================
