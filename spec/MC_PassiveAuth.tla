--------------------------- MODULE MC_PassiveAuth ---------------------------
(* Bounded instance for C01 / C09.  The fact space is explored from genuine documents (one or two    *)
(* embedded certificates, one or two anchors - e.g. a cross-signed pair -, with or without a card     *)
(* security object, one or two signer infos) by flipping atomic facts, at most K flips: every         *)
(* modification of a data group, of the hash list, of the signed attributes, of the signer           *)
(* certificate or of the anchor set is some sequence of such flips.  Soundness and Completeness are   *)
(* invariants of every reachable document.                                                            *)
EXTENDS PassiveAuth, TLC
CONSTANTS K, TwoSigners
VARIABLES d, flips

GAnchor == [country |-> "doc", v |-> "in", isCA |-> TRUE, hasKU |-> TRUE, certSign |-> TRUE, unknownCrit |-> FALSE, ekuBad |-> FALSE]
GCert(akis, bys) == [v |-> "in", unknownCrit |-> FALSE, hasKU |-> TRUE, digSig |-> TRUE, ekuOK |-> TRUE, hasAKI |-> TRUE, aki |-> akis, by |-> bys]
GSigner(i) == [attrs |-> TRUE, ctOK |-> TRUE, mdOK |-> TRUE, time |-> "t", sid |-> {i}, sig |-> {i}]
\* a certificate / anchor of somebody else (adversary): verifies nothing of ours
XCert == [v |-> "in", unknownCrit |-> FALSE, hasKU |-> TRUE, digSig |-> TRUE, ekuOK |-> TRUE, hasAKI |-> TRUE, aki |-> {}, by |-> {}]
XAnchor == [country |-> "other", v |-> "in", isCA |-> TRUE, hasKU |-> TRUE, certSign |-> TRUE, unknownCrit |-> FALSE, ekuBad |-> FALSE]

Obj(signers, certs) == [parse |-> TRUE, signers |-> signers, certs |-> certs]

Bases ==
  LET s1 == << GSigner(1) >>
      s2 == IF TwoSigners THEN << GSigner(1), GSigner(2) >> ELSE s1
  IN { [sod |-> Obj(s1, << GCert({1}, {1}) >>), cardsec |-> NoObj, dgOK |-> TRUE, countryOK |-> TRUE, anchors |-> << GAnchor >>],
       [sod |-> Obj(s1, << GCert({1}, {1}), XCert >>), cardsec |-> NoObj, dgOK |-> TRUE, countryOK |-> TRUE, anchors |-> << GAnchor, XAnchor >>],
       [sod |-> Obj(s1, << GCert({1, 2}, {1, 2}) >>), cardsec |-> NoObj, dgOK |-> TRUE, countryOK |-> TRUE, anchors |-> << GAnchor, GAnchor >>],
       [sod |-> Obj(s2, << GCert({1}, {1}), GCert({1}, {1}) >>), cardsec |-> Obj(s1, << GCert({1}, {1}) >>), dgOK |-> TRUE, countryOK |-> TRUE,
        anchors |-> << GAnchor >>] }

Init == d \in Bases /\ flips = 0

Toggle(S, x) == IF x \in S THEN S \ {x} ELSE S \cup {x}
Other(val, a, b) == IF val = a THEN b ELSE a

AnchorBools == {"isCA", "hasKU", "certSign", "unknownCrit", "ekuBad"}
CertBools   == {"unknownCrit", "hasKU", "digSig", "ekuOK", "hasAKI"}
SignerBools == {"attrs", "ctOK", "mdOK"}

FlipObj(o) ==  \* the set of objects one fact away from o
  IF "absent" \in DOMAIN o THEN {} ELSE
  { [o EXCEPT !.parse = ~@] }
  \cup { [o EXCEPT !.signers[k][f] = ~@] : k \in Idx(o.signers), f \in SignerBools }
  \cup { [o EXCEPT !.signers[k].time = Other(@, "none", "t")] : k \in Idx(o.signers) }
  \cup { [o EXCEPT !.signers[k].sid = Toggle(@, i)] : k \in Idx(o.signers), i \in Idx(o.certs) }
  \cup { [o EXCEPT !.signers[k].sig = Toggle(@, i)] : k \in Idx(o.signers), i \in Idx(o.certs) }
  \cup { [o EXCEPT !.certs[i][f] = ~@] : i \in Idx(o.certs), f \in CertBools }
  \cup { [o EXCEPT !.certs[i].v = Other(@, "in", "out")] : i \in Idx(o.certs) }
  \cup { [o EXCEPT !.certs[i].aki = Toggle(@, j)] : i \in Idx(o.certs), j \in Idx(d.anchors) }
  \cup { [o EXCEPT !.certs[i].by = Toggle(@, j)] : i \in Idx(o.certs), j \in Idx(d.anchors) }

Flip == /\ flips < K /\ flips' = flips + 1
        /\ \/ d' = [d EXCEPT !.dgOK = ~@]
           \/ d' = [d EXCEPT !.countryOK = ~@]
           \/ \E o \in FlipObj(d.sod) : d' = [d EXCEPT !.sod = o]
           \/ \E o \in FlipObj(d.cardsec) : d' = [d EXCEPT !.cardsec = o]
           \/ \E j \in Idx(d.anchors), f \in AnchorBools : d' = [d EXCEPT !.anchors[j][f] = ~@]
           \/ \E j \in Idx(d.anchors) : d' = [d EXCEPT !.anchors[j].v = Other(@, "in", "out")]
           \/ \E j \in Idx(d.anchors) : d' = [d EXCEPT !.anchors[j].country = Other(@, "doc", "other")]
Next == Flip
View == d

SoundInv    == Soundness(d)
CompleteInv == Completeness(d)
BasesGenuine == flips = 0 => (Genuine(d) /\ AsBuiltAccepts(d) /\ Valid(d))
\* not vacuous: rejected documents and accepted documents both occur away from the bases
=============================================================================
