---------------------------- MODULE MC_CaSelect ----------------------------
EXTENDS CaSelect, TLC
VARIABLE arr
Init == arr \in Arrangements
Next == UNCHANGED arr
InvSelectOK   == SelectOK(arr)
InvSuiteOfKey == SuiteOfKey(arr)
\* one row per conforming arrangement: the keys in DG14 order, then what the model says both sides do
Row(k) == << k.kid, k.info, k.ikid >>
Emit == Conforming(arr) => PrintT(<< "A", [i \in DOMAIN arr |-> Row(arr[i])], Outcome(arr).suite, Outcome(arr).d84, Outcome(arr).termKey >>)
=============================================================================
