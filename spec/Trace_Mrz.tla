------------------------------ MODULE Trace_Mrz ------------------------------
(* Trace validation for C18.  One line per real call bundle on one input zone:                      *)
(*  {"in":[codes], "ok":bool, "f":{code,state,num,nat,dob,sex,exp,opt,opt2,primary,secondary},       *)
(*   "r1ok":bool,"r1":[..], "r2ok":bool,"r2":[..], "r3ok":bool,"r3":[..]}                             *)
(*  ok/f: mrz.MrzDecode; r1: password.NewPasswordMrz(zone); r2: NewPasswordMrzi(decoded number,       *)
(*  dob, expiry); r3: decoded.EncodeMrzi().  Characters outside the MRZ alphabet are code 99.        *)
EXTENDS Mrz, TLC, Json
VARIABLE l
Trace == ndJsonDeserialize("trace.ndjson")

InAlphabet(z) == \A i \in 1..Len(z) : Alpha(z[i])

LineOK(t) ==
  LET z == t.in IN
  IF ~InAlphabet(z) THEN TRUE                                   \* no clause of the property applies
  ELSE IF MustReject(z) THEN ~t.ok
  ELSE IF WellFormed(z) THEN
       /\ t.ok /\ t.f = Fields(z)
       /\ t.r1ok /\ t.r1 = SeedFromMrz(z)
       /\ t.r2ok /\ t.r2 = SeedFromMrz(z)
       /\ t.r3ok /\ t.r3 = SeedFromMrz(z)
  ELSE TRUE

Why(t) == IF MustReject(t.in) THEN "accepted-bad-check-digit" ELSE "well-formed-zone-differs"

Init == l = 1
Next == /\ l <= Len(Trace)
        /\ l' = l + 1
        /\ (LineOK(Trace[l]) \/ PrintT(<< "REJECT", l, Why(Trace[l]) >>))
Done == (l = Len(Trace) + 1) => PrintT(<< "DONE", l - 1 >>)
=============================================================================
