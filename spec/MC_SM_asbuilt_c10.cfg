\* as built, honest link: the C10 invariants hold with the roll-back too
CONSTANTS
  M = 16
  MaxEx = 4
  Statuses <- StatusSet
  Datas <- DataSet
  InitSsc = {0, 7, 13, 14, 15}
  NakedRollback = TRUE
  AdvBudget = 0
SPECIFICATION Spec
VIEW View
INVARIANTS Authentic Lockstep HonestDelivers NoCounterReuse
