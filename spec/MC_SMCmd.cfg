INIT Init
NEXT Next
INVARIANTS OuterRoundTrip Emit
