-------------------------- MODULE Trace_PassiveAuth --------------------------
(* Trace validation for C01 / C09.  One line per real passiveauth.PassiveAuth call on concrete       *)
(* bytes: the atomic facts computed from those bytes by the independent verifier (projected onto    *)
(* the document record of PassiveAuth.tla; JSON arrays stand for the sets) and the real verdict:    *)
(*   {"d": <document facts>, "accept": bool}                                                          *)
(* The line is rejected when the real code accepted a document that is not Valid ("unsound") or      *)
(* rejected a correctly issued one ("incomplete").                                                   *)
EXTENDS PassiveAuth, TLC, Json
VARIABLE l
Trace == ndJsonDeserialize("trace.ndjson")

ToSet(s) == { s[i] : i \in DOMAIN s }
FixSigner(s) == [attrs |-> s.attrs, ctOK |-> s.ctOK, mdOK |-> s.mdOK, time |-> s.time, sid |-> ToSet(s.sid), sig |-> ToSet(s.sig)]
FixCert(c) == [v |-> c.v, unknownCrit |-> c.unknownCrit, hasKU |-> c.hasKU, digSig |-> c.digSig, ekuOK |-> c.ekuOK, hasAKI |-> c.hasAKI,
               aki |-> ToSet(c.aki), by |-> ToSet(c.by)]
FixObj(o) == IF "absent" \in DOMAIN o THEN NoObj
             ELSE [parse |-> o.parse, signers |-> [k \in DOMAIN o.signers |-> FixSigner(o.signers[k])], certs |-> [i \in DOMAIN o.certs |-> FixCert(o.certs[i])]]
Fix(d) == [sod |-> FixObj(d.sod), cardsec |-> FixObj(d.cardsec), dgOK |-> d.dgOK, countryOK |-> d.countryOK, anchors |-> d.anchors]

Verdict(t) == LET d == Fix(t.d) IN
              IF t.accept /\ ~Valid(d) THEN "unsound"
              ELSE IF ~t.accept /\ Genuine(d) THEN "incomplete"
              ELSE "ok"

Init == l = 1
Next == /\ l <= Len(Trace)
        /\ l' = l + 1
        /\ (Verdict(Trace[l]) = "ok" \/ PrintT(<< "REJECT", l, Verdict(Trace[l]) >>))
        /\ PrintT(<< "FACTS", l, Valid(Fix(Trace[l].d)), Genuine(Fix(Trace[l].d)), AsBuiltAccepts(Fix(Trace[l].d)) >>)
Done == (l = Len(Trace) + 1) => PrintT(<< "DONE", l - 1 >>)
=============================================================================
