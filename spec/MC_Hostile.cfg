INIT Init
NEXT Next
INVARIANTS Emit
