\* intended design: no counter roll-back on unprotected responses. All invariants must hold.
CONSTANTS
  M = 16
  MaxEx = 3
  Statuses <- StatusSet
  Datas <- DataSet
  InitSsc = {0, 13}
  NakedRollback = FALSE
  AdvBudget = 3
SPECIFICATION Spec
VIEW View
INVARIANTS Authentic Lockstep HonestDelivers NoCounterReuse
