------------------------------ MODULE MC_Apdu ------------------------------
(* Bounded instance for C17: every Nc against the Ne boundary set and every Ne against the Nc   *)
(* boundary set (Full), or bands around the boundaries plus a stride (Quick).  Each state is one *)
(* (Nc, Ne) pair; invariants are the round-trip and minimality laws of Apdu.tla; Emit prints the  *)
(* specified length fields, which vcheck replays into the real CApdu.Encode.                      *)
EXTENDS Apdu, TLC
CONSTANT Full
VARIABLES nc, ne

NcB == {0, 1, 255, 256, 65279, 65280, 65535}
NeB == {0, 1, 255, 256, 257, 65535, 65536}

Near(S, max) == (UNION {(b - 2)..(b + 2) : b \in S}) \cap (0..max)
Stride(max, k) == {x * k : x \in 0..(max \div k)}

NcSet == IF Full THEN 0..MaxNc ELSE Near(NcB \cup {127,128,4096,32767,32768}, MaxNc) \cup Stride(MaxNc, 251)
NeSet == IF Full THEN 0..MaxNe ELSE Near(NeB \cup {127,128,4096,32767,32768}, MaxNe) \cup Stride(MaxNe, 251)

Pairs == (NcSet \X NeB) \cup (NcB \X NeSet)

Init == \E p \in Pairs : nc = p[1] /\ ne = p[2]
Next == UNCHANGED << nc, ne >>

RoundTripInv == RoundTrip(nc, ne)
MinimalInv   == Minimal(nc, ne)
ParserNeverReadsData == Parse(Encode(nc, ne))[1] # -2
Emit == PrintT(<< "T", nc, ne, Encode(nc, ne).lc, Encode(nc, ne).le >>)
=============================================================================
