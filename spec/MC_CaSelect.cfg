CONSTANT Strict = FALSE
INIT Init
NEXT Next
INVARIANTS InvSelectOK InvSuiteOfKey Emit
