CONSTANT FileKinds = {"cardAccess", "com", "sod", "dg1", "dg2", "dg14", "dg15"}
INIT Init
NEXT Next
INVARIANTS InvRoundTrip InvDetects InvForeign InvExpected Emit
