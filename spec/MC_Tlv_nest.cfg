\* every string of up to 8 octets over {00, 02, 04, 30, 80}: indefinite and definite constructed elements nested in each
\* other with end-of-contents octets at every position (e.g. 30 80 30 02 00 00 00 00: EOC inside a definite child of
\* an indefinite parent)
CONSTANTS
  MaxDepth = 50
  MaxNodes = 10000
  MaxLen = 8
  Alphabet = {0, 2, 4, 48, 128}
INIT Init
NEXT Next
INVARIANTS LawInv UnwrapInv Emit
