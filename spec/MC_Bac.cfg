CONSTANTS
  Mrzs = {"m1", "m2"}
  OtherMrz = "m2"
INIT Init
NEXT Next
INVARIANTS Completeness Soundness FailClosed Emit
