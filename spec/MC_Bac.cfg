CONSTANTS
  Mrzs = {"m1", "m2"}
  OtherMrz = "m2"
  PositionBound = TRUE
INIT Init
NEXT Next
INVARIANTS Completeness Soundness FailClosed Emit
