CONSTANTS
  MaxChunks = 1000
  Ladder <- LadderSeq
  MaxTlv = 65535
  SfiOffsets = TRUE
  Sizes <- SizesA
  MaxLes = {256, 65536}
  Caps = {0, 100}
  RejectOvers = {0}
  HdrNs = {4}
  Policies = {"any", "max", "one"}
  SelSws = {"9000", "6A82", "6283", "6982"}
  Slack = {0, 7}
SPECIFICATION Spec
INVARIANTS Exact NotFound Bounded
