CONSTANTS
  MaxChunks = 1000
  Ladder <- LadderSeq
  MaxTlv = 65535
  SfiOffsets = TRUE
  Sizes <- SizesQ
  MaxLes = {1, 3, 4, 5, 128, 255, 256, 257, 4096, 65536}
  Caps = {0, 1, 5, 100, 256}
  RejectOvers = {0, 255, 128, 100}
  HdrNs = {0, 1, 2, 3, 4}
  Policies = {"any"}
  SelSws = {"9000", "6A82", "6283", "6982"}
  Slack = {0, 7}
SPECIFICATION Spec
INVARIANTS Exact NotFound Bounded
PROPERTY Terminates
