CONSTANTS
  MaxChunks = 1000
  Ladder <- LadderSeq
  MaxTlv = 65535
  SfiOffsets = FALSE
  Sizes <- SizesQ
  MaxLes = {1, 5, 256, 257, 65536}
  Caps = {0, 100}
  RejectOvers = {0, 255, 100}
  HdrNs = {0, 1, 3, 4}
  Policies = {"any", "max", "one"}
  SelSws = {"9000", "6A82", "6283", "6982"}
  Slack = {0, 7}
SPECIFICATION Spec
INVARIANTS Exact NotFound Bounded LoopInv
