CONSTANTS
  MaxChunks = 1000
  Ladder <- LadderSeq
  MaxTlv = 65535
  SfiOffsets = FALSE
  MaxReads = 3
  MaxFaults = 2
  Files <- FilesQ
  KeepBuffer = FALSE
  ProbeOnce = TRUE
SPECIFICATION Spec
INVARIANTS ReadableEach
