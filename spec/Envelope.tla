------------------------------ MODULE Envelope ------------------------------
(***************************************************************************)
(* Serialised documents (C15): nested CBOR envelopes                          *)
(*   [magic, version, sha256, payload]                                        *)
(* outer "gmrtd-verifiable-doc" v1 whose payload holds two inner envelopes:    *)
(* "gmrtd-raw-doc" v1 (the files) and "gmrtd-chip-auth-evidence" v2 (min 2).    *)
(* Export / Import are written in the order of document_ex_cbor.go; Corrupt     *)
(* changes one component class of one envelope.  Contents are abstract ids.      *)
(***************************************************************************)
EXTENDS Integers, FiniteSets

Levels == {"outer", "doc", "evidence"}
Components == {"magic", "version-up", "version-down", "sha", "payload", "map-key", "structure", "truncate", "extend"}

Magic(l) == CASE l = "outer" -> "gmrtd-verifiable-doc" [] l = "doc" -> "gmrtd-raw-doc" [] l = "evidence" -> "gmrtd-chip-auth-evidence"
MaxVer(l) == IF l = "evidence" THEN 2 ELSE 1
MinVer(l) == IF l = "evidence" THEN 2 ELSE 0

OtherOf(l) == IF l = "outer" THEN << {"?"}, {"?"} >> ELSE {"?"}      \* content of the right shape, different value
Rejected == [ok |-> FALSE, d |-> {}, s |-> {}]
Env(l, content) == [magic |-> Magic(l), version |-> MaxVer(l), sha |-> content, payload |-> content, wellformed |-> TRUE, keys |-> TRUE]

\* import checks of one envelope, in code order
Open(l, e) ==
  IF ~e.wellformed THEN "reject"                 \* CBOR decoding error (structure, truncation, trailing data)
  ELSE IF ~e.keys THEN "reject"                  \* a renamed key leaves its field empty: magic / checksum comparison fails
  ELSE IF e.magic # Magic(l) THEN "reject"
  ELSE IF e.version > MaxVer(l) \/ e.version < MinVer(l) THEN "reject"
  ELSE IF e.sha # e.payload THEN "reject"        \* SHA-256 over the payload bytes
  ELSE "open"

Corrupted(l, e, comp) ==
  CASE comp = "magic" -> [e EXCEPT !.magic = "other"]
    [] comp = "version-up" -> [e EXCEPT !.version = @ + 1]
    [] comp = "version-down" -> [e EXCEPT !.version = @ - 1]
    [] comp = "sha" -> [e EXCEPT !.sha = OtherOf(l)]
    [] comp = "payload" -> [e EXCEPT !.payload = OtherOf(l)]
    [] comp = "map-key" -> [e EXCEPT !.keys = FALSE]
    [] comp \in {"structure", "truncate", "extend"} -> [e EXCEPT !.wellformed = FALSE]

\* a blob = outer envelope over (doc envelope, evidence envelope); a change inside an inner envelope is a payload change of the outer
Import(outer, doc, ev) ==
  IF Open("outer", outer) = "reject" THEN Rejected
  ELSE IF Open("doc", doc) = "reject" THEN Rejected
  ELSE IF Open("evidence", ev) = "reject" THEN Rejected
  ELSE [ok |-> TRUE, d |-> doc.payload, s |-> ev.payload]

Genuine(d, s) == Import(Env("outer", << d, s >>), Env("doc", d), Env("evidence", s))

\* one corruption at level l, component comp.  Bytes of an inner envelope are payload bytes of the outer one:
\* the outer checksum no longer matches unless the corruption is at the outer level itself.
AfterCorruption(d, s, l, comp) ==
  LET o == Env("outer", << d, s >>) dd == Env("doc", d) ee == Env("evidence", s) IN
  CASE l = "outer" -> Import(Corrupted("outer", o, comp), dd, ee)
    [] l = "doc" -> Import([o EXCEPT !.payload = OtherOf("outer")], Corrupted("doc", dd, comp), ee)
    [] l = "evidence" -> Import([o EXCEPT !.payload = OtherOf("outer")], dd, Corrupted("evidence", ee, comp))

Same(d, s) == [ok |-> TRUE, d |-> d, s |-> s]
RoundTrip(d, s) == Genuine(d, s) = Same(d, s)
Detects(d, s, l, comp) == AfterCorruption(d, s, l, comp) \in {Rejected, Same(d, s)}
ForeignOrNewer(d, s) == /\ AfterCorruption(d, s, "outer", "magic") = Rejected
                        /\ AfterCorruption(d, s, "outer", "version-up") = Rejected
\* the only accepted single corruption: an OLDER version number on the outer envelope (content unchanged)
ExpectedOutcome(l, comp) == IF l = "outer" /\ comp = "version-down" THEN "same" ELSE "reject"
=============================================================================
