------------------------------- MODULE MC_Mrz -------------------------------
(* Bounded instance for C18.  A generator builds valid zones of the three layouts from field       *)
(* choices (short / 9-character / extended document numbers, fillers, one- and two-part names,     *)
(* used and unused optional data); a mutation is applied: every single-character substitution over  *)
(* SubstSet, every adjacent transposition, every deletion, and insertions.  One state per           *)
(* resulting string.  Invariants: generator sanity, consistency of the two clauses, agreement of     *)
(* the key-seed routes; Emit prints the specified outcome which vcheck replays into mrz.MrzDecode    *)
(* and the three password routes.                                                                   *)
EXTENDS Mrz, TLC
CONSTANTS Nums, Dobs, Exps, Opts, Names, SubstSet, Layouts
VARIABLES m, how

NumA == << 21, 8, 9, 8, 9, 0, 2, 12, 3 >>   \* L898902C3
NumB == << 10, 11, 1, 2 >>   \* AB12
NumC == << 13, 2, 3, 1, 4, 5, 8, 9, 0, 7, 3, 4 >>   \* D23145890734   (extended, TD1/TD2 only)
NumD == << 33, 1 >>   \* X1
NumF == << 13, 2, 3, 1, 4, 5, 8, 9, 0, 7 >>   \* D231458907  (extended by ONE character which equals the check digit of the first nine)
NumE == << 10, 11, 36, 1, 2, 3, 4, 5 >>   \* AB<12345   (printed as AB-12345: interior filler)
DobA == << 7, 4, 0, 8, 1, 2 >>   \* 740812
DobB == << 0, 0, 0, 1, 0, 1 >>   \* 000101
ExpA == << 1, 2, 0, 4, 1, 5 >>   \* 120415
ExpB == << 9, 9, 1, 2, 3, 1 >>   \* 991231
OptA == << 35, 14, 1, 8, 4, 2, 2, 6, 11 >>   \* ZE184226B
OptNone == << >>
NameA == << 14, 27, 18, 20, 28, 28, 24, 23, 36, 36, 10, 23, 23, 10, 36, 22, 10, 27, 18, 10 >>   \* ERIKSSON<<ANNA<MARIA
NameB == << 28, 22, 18, 29, 17 >>   \* SMITH
NameC == << 31, 10, 23, 36, 13, 14, 27, 36, 11, 14, 27, 16, 36, 36, 19 >>   \* VAN<DER<BERG<<J
StateA == << 30, 29, 24 >>   \* UTO
CodeP == << 25, 36 >>   \* P<
SexF == << 15 >>   \* F

NumG == << 13, 2, 3, 1, 4, 5, 8, 9, 0, 7, 3, 4, 10, 11, 1, 2, 12, 13, 3, 4, 14, 15 >>   \* D23145890734AB12CD34EF  (22: the longest a TD1 zone holds)
NumH == SubSeq(NumG, 1, 15)                                                               \* D23145890734AB1         (15)
NumOf(n)  == CASE n = "A" -> NumA [] n = "B" -> NumB [] n = "C" -> NumC [] n = "D" -> NumD [] n = "E" -> NumE [] n = "F" -> NumF
               [] n = "G" -> NumG [] n = "H" -> NumH
DobC == << 36, 36, 0, 8, 1, 2 >>   \* <<0812  year unknown
DobD == << 7, 4, 36, 36, 36, 36 >> \* 74<<<<  month and day unknown
DobOf(n)  == CASE n = "A" -> DobA [] n = "B" -> DobB [] n = "C" -> DobC [] n = "D" -> DobD
ExpOf(n)  == IF n = "A" THEN ExpA ELSE ExpB
OptOf(n)  == IF n = "A" THEN OptA ELSE OptNone
NameOf(n) == CASE n = "A" -> NameA [] n = "B" -> NameB [] n = "C" -> NameC

Fill(k) == [i \in 1..k |-> F]
PadTo(s, n) == IF Len(s) >= n THEN SubSeq(s, 1, n) ELSE s \o Fill(n - Len(s))

\* document number field (9) + check-digit position + optional data field of width w
NumAndOpt(num, opt, w) ==
  IF Len(num) <= 9 THEN PadTo(num, 9) \o << CD(PadTo(num, 9)) >> \o PadTo(opt, w)
  ELSE LET rest == SubSeq(num, 10, Len(num)) IN
       SubSeq(num, 1, 9) \o << F >> \o PadTo(rest \o << CD(num) >> \o << F >> \o opt, w)

BuildTD1(num, dob, exp, opt, name) ==
  LET l1a == NumAndOpt(num, opt, 15)                                     \* positions 6..30
      l2a == dob \o << CD(dob) >>
      l2b == exp \o << CD(exp) >>
      o2  == Fill(11)
      comp == CD(l1a \o l2a \o l2b \o o2)
  IN << 18, 36 >> \o StateA \o l1a \o l2a \o SexF \o l2b \o StateA \o o2 \o << comp >> \o PadTo(name, 30)

BuildTD2(num, dob, exp, opt, name) ==
  LET no  == NumAndOpt(num, opt, 7)                                      \* 9 + 1 + 7
      n10 == SubSeq(no, 1, 10)
      o7  == SubSeq(no, 11, 17)
      d   == dob \o << CD(dob) >>
      e   == exp \o << CD(exp) >>
      comp == CD(n10 \o d \o e \o o7)
  IN << 18, 36 >> \o StateA \o PadTo(name, 31) \o n10 \o StateA \o d \o SexF \o e \o o7 \o << comp >>

BuildTD3(num, dob, exp, opt, name) ==
  LET n10 == PadTo(num, 9) \o << CD(PadTo(num, 9)) >>
      d   == dob \o << CD(dob) >>
      e   == exp \o << CD(exp) >>
      o   == PadTo(opt, 14)
      ocd == IF opt = << >> THEN F ELSE CD(o)
      comp == CD(n10 \o d \o e \o o \o << ocd >>)
  IN CodeP \o StateA \o PadTo(name, 39) \o n10 \o StateA \o d \o SexF \o e \o o \o << ocd >> \o << comp >>

Build(lay, num, dob, exp, opt, name) ==
  CASE lay = "TD1" -> BuildTD1(num, dob, exp, opt, name)
    [] lay = "TD2" -> BuildTD2(num, dob, exp, opt, name)
    [] lay = "TD3" -> BuildTD3(num, dob, exp, opt, name)

BasesOf(lay) == { Build(lay, NumOf(n), DobOf(d), ExpOf(e), OptOf(o), NameOf(nm)) :
                     n \in { x \in Nums : ~(lay = "TD3" /\ x \in {"C", "F"}) }, d \in Dobs, e \in Exps, o \in Opts, nm \in Names }
Bases == UNION { BasesOf(lay) : lay \in Layouts }

Subst(b, p, c) == [b EXCEPT ![p] = c]
Swap(b, p)     == [b EXCEPT ![p] = b[p + 1], ![p + 1] = b[p]]
Del(b, p)      == SubSeq(b, 1, p - 1) \o SubSeq(b, p + 1, Len(b))
Ins(b, p, c)   == SubSeq(b, 1, p) \o << c >> \o SubSeq(b, p + 1, Len(b))

\* further bases that are not mutated (the table stays small): dates of birth with unknown parts, every layout
PlainBases == UNION { { Build(lay, NumOf(n), DobOf(d), ExpOf("A"), OptOf(o), NameOf("A")) :
                          n \in { x \in {"A", "C"} : ~(lay = "TD3" /\ x = "C") }, d \in {"C", "D"}, o \in {"A", "N"} } : lay \in Layouts }
\* TD1 with the longest extended document numbers (the optional data field holds up to 13 further characters)
LongTD1 == { Build("TD1", NumOf(n), DobOf("A"), ExpOf("A"), OptOf("N"), NameOf("A")) : n \in {"G", "H"} }
Init == \/ \E b \in PlainBases \cup LongTD1 : m = b /\ how = "base"
        \/ \E b \in Bases :
          \/ m = b /\ how = "base"
          \/ \E p \in 1..Len(b), c \in SubstSet : c # b[p] /\ m = Subst(b, p, c) /\ how = "subst"
          \/ \E p \in 1..(Len(b) - 1) : b[p] # b[p + 1] /\ m = Swap(b, p) /\ how = "swap"
          \/ \E p \in {1, 6, 15, 45, Len(b)} : m = Del(b, p) /\ how = "del"
          \/ \E p \in {0, 15, Len(b)} : m = Ins(b, p, 1) /\ how = "ins"
Next == UNCHANGED << m, how >>
View == m

Outcome(z) == IF MustReject(z) THEN "rej" ELSE IF WellFormed(z) THEN "acc" ELSE "grey"

BaseSane   == how = "base" => (WellFormed(m) /\ ~MustReject(m))
Consistent == WellFormed(m) => ~MustReject(m)
Routes     == WellFormed(m) => SeedsAgree(m)
LenRule    == how \in {"del", "ins"} => MustReject(m)
Emit == PrintT(<< "T", m, Outcome(m),
                  IF WellFormed(m) THEN Fields(m) ELSE << >>,
                  IF WellFormed(m) THEN SeedFromMrz(m) ELSE << >> >>)

=============================================================================
