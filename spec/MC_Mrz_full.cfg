CONSTANTS
  Layouts = {"TD1", "TD2", "TD3"}
  Nums = {"A", "B", "C", "D", "E", "F"}
  Dobs = {"A", "B", "C"}
  Exps = {"A", "B"}
  Opts = {"A", "N"}
  Names = {"A", "B", "C"}
  SubstSet = {0, 1, 3, 7, 9, 10, 24, 35, 36}
INIT Init
NEXT Next
VIEW View
INVARIANTS BaseSane Consistent Routes LenRule Emit
