------------------------------- MODULE MC_Pace -------------------------------
EXTENDS Pace, TLC
Emit == done => PrintT(<< "T", mapping, dev, dev2, termResult, camResult, termSM # NoKeys, chipCompleted >>)

\* selection: every non-empty subset of a universe of advertised infos (weights as in pace.go)
Universe == { [fam |-> "ecdh-gm", w |-> 250], [fam |-> "ecdh-gm", w |-> 253], [fam |-> "ecdh-cam", w |-> 300],
              [fam |-> "dh-gm", w |-> 203], [fam |-> "dh-im", w |-> 103], [fam |-> "ecdh-im", w |-> 153], [fam |-> "unknown", w |-> 999] }
SelectInv == \A S \in SUBSET Universe : SelectOK(S)
\* the loop over the file order: every sequence of up to three distinct entries, each with its own parameter id
UniverseP == { [fam |-> "ecdh-gm", w |-> 250, pid |-> 13], [fam |-> "ecdh-gm", w |-> 253, pid |-> 12], [fam |-> "ecdh-gm", w |-> 252, pid |-> 16],
               [fam |-> "ecdh-cam", w |-> 300, pid |-> 13], [fam |-> "dh-gm", w |-> 203, pid |-> 0], [fam |-> "ecdh-im", w |-> 153, pid |-> 15],
               [fam |-> "unknown", w |-> 999, pid |-> 17] }
Seqs3 == UNION { [1..n -> UniverseP] : n \in 1..3 }
CoupledInv == \A q \in Seqs3 : Coupled(q)
=============================================================================
