------------------------------- MODULE MC_Pace -------------------------------
EXTENDS Pace, TLC
Emit == done => PrintT(<< "T", mapping, dev, dev2, termResult, camResult, termSM # NoKeys, chipCompleted >>)

\* selection: every non-empty subset of a universe of advertised infos (weights as in pace.go)
Universe == { [fam |-> "ecdh-gm", w |-> 250], [fam |-> "ecdh-gm", w |-> 253], [fam |-> "ecdh-cam", w |-> 300],
              [fam |-> "dh-gm", w |-> 203], [fam |-> "dh-im", w |-> 103], [fam |-> "ecdh-im", w |-> 153], [fam |-> "unknown", w |-> 999] }
SelectInv == \A S \in SUBSET Universe : SelectOK(S)
=============================================================================
