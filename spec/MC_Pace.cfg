CONSTANT EchoCheck = TRUE
INIT Init
NEXT Next
INVARIANTS Completeness FailClosed CamGated Agreement StatusFails SelectInv Emit
