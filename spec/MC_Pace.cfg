CONSTANT EchoCheck = TRUE
CONSTANT ParamsOfLast = FALSE
INIT Init
NEXT Next
INVARIANTS Completeness FailClosed CamGated Agreement StatusFails SelectInv CoupledInv Emit
