------------------------------- MODULE MC_SM -------------------------------
EXTENDS SM, TLC
StatusSet == {36864, 27266}     \* 9000, 6A82
DataSet == {0, 1, 2}
DataSet2 == {0, 1}
\* exhaustive checking: the history variable is observation only
View == << tSsc, cSsc, cAlive, phase, ex, wire, chipDid, seen, delivered, advMoves >>
\* behaviour enumeration: print every complete behaviour once (hist is part of the state here)
Emit == (phase = "idle" /\ ex > MaxEx) => PrintT(<< "B", hist >>)
=============================================================================
