------------------------------- MODULE MC_SM -------------------------------
EXTENDS SM, TLC
\* `seen' and `usedSsc' only grow and `advMoves' only counts: they are part of the state on purpose
\* (replays depend on seen).  History of deliveries is not kept: Authentic is evaluated on the
\* delivery of the current exchange.
StatusSet == {36864, 27266}     \* 9000, 6A82
DataSet == {0, 1, 2}
=============================================================================
