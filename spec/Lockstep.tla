------------------------------ MODULE Lockstep ------------------------------
(***************************************************************************)
(* The counter discipline of secure messaging on an honest link, for          *)
(* histories of ANY length (C10: "over any sequence of exchanges ... the       *)
(* counter advances exactly as the chip's does").  SM.tla checks it with TLC   *)
(* for three exchanges; here the same discipline is an inductive invariant     *)
(* discharged by Apalache (IndInv holds initially and is preserved by every     *)
(* step), so the number of exchanges is unbounded.  Counters are integers       *)
(* modulo M (M = 2^64 or 2^128 in the implementation; any M >= 4 here).          *)
(*   TermEncode   terminal: SSC+1, command MACed under it                        *)
(*   ChipProcess  chip: verifies at its SSC+1, answers (any status) at SSC+2     *)
(*   TermDecode   terminal: SSC+1, verifies the response under it                *)
(***************************************************************************)
EXTENDS Integers

CONSTANT
  \* @type: Int;
  M

VARIABLES
  \* @type: Int;
  tSsc,
  \* @type: Int;
  cSsc,
  \* @type: Str;
  phase,
  \* @type: Int;
  onWire,     \* the counter value the message in flight was MACed under
  \* @type: Bool;
  accepted    \* every message so far authenticated at its receiver

CInit == M \in {4, 5, 8, 256, 18446744073709551616, 340282366920938463463374607431768211456}
Inc(x) == (x + 1) % M

Init == /\ tSsc \in 0..(M - 1) /\ cSsc = tSsc /\ phase = "idle" /\ onWire = 0 /\ accepted = TRUE

TermEncode == /\ phase = "idle"
              /\ tSsc' = Inc(tSsc) /\ onWire' = Inc(tSsc) /\ phase' = "cmd"
              /\ UNCHANGED << cSsc, accepted >>
ChipProcess == /\ phase = "cmd"
               /\ accepted' = (accepted /\ onWire = Inc(cSsc))          \* the chip expects its counter + 1
               /\ cSsc' = Inc(Inc(cSsc)) /\ onWire' = Inc(Inc(cSsc)) /\ phase' = "resp"
               /\ UNCHANGED tSsc
TermDecode == /\ phase = "resp"
              /\ tSsc' = Inc(tSsc)
              /\ accepted' = (accepted /\ onWire = Inc(tSsc))           \* the terminal expects its counter + 1
              /\ phase' = "idle" /\ UNCHANGED << cSsc, onWire >>
Next == TermEncode \/ ChipProcess \/ TermDecode
\* a chip that answers under the counter it verified with (one increment per exchange instead of two): the invariant must fail
ChipProcessBroken == /\ phase = "cmd"
                     /\ accepted' = (accepted /\ onWire = Inc(cSsc))
                     /\ cSsc' = Inc(cSsc) /\ onWire' = Inc(cSsc) /\ phase' = "resp"
                     /\ UNCHANGED tSsc
NextBroken == TermEncode \/ ChipProcessBroken \/ TermDecode

\* the inductive invariant: in every phase the two counters are in the relation that makes the next message authenticate
IndInv == /\ phase \in {"idle", "cmd", "resp"}
          /\ tSsc \in 0..(M - 1) /\ cSsc \in 0..(M - 1) /\ onWire \in 0..(M - 1)
          /\ accepted = TRUE
          /\ (phase = "idle" => tSsc = cSsc)
          /\ (phase = "cmd" => tSsc = Inc(cSsc) /\ onWire = tSsc)
          /\ (phase = "resp" => cSsc = Inc(tSsc) /\ onWire = cSsc)
\* what C10 states: whenever the terminal is idle the counters are equal and nothing was refused
Lockstep == accepted /\ (phase = "idle" => tSsc = cSsc)
=============================================================================
