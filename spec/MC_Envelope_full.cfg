CONSTANT FileKinds = {"cardAccess", "cardSecurity", "dir", "com", "sod", "dg1", "dg2", "dg7", "dg11", "dg12", "dg13", "dg14", "dg15", "dg16"}
INIT Init
NEXT Next
INVARIANTS InvRoundTrip InvDetects InvForeign InvExpected Emit
