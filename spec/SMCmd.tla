------------------------------- MODULE SMCmd -------------------------------
(***************************************************************************)
(* Doc 9303-11 9.8.4: structure of a protected command APDU (C10).          *)
(* A plain command is (INS parity, Nc data octets, Ne expected octets); bs   *)
(* is the cipher block size (8: 3DES, 16: AES).  Protect gives the lengths   *)
(* and order of the secure-messaging data objects and the outer length       *)
(* fields; the outer APDU is encoded with Apdu!Encode.                        *)
(***************************************************************************)
EXTENDS Apdu

PadLen(n, bs) == ((n \div bs) + 1) * bs            \* ISO 9797-1 method 2: always at least one octet

BerLenOctets(n) == IF n <= 127 THEN 1 ELSE IF n <= 255 THEN 2 ELSE IF n <= 65535 THEN 3 ELSE 4

\* a data object with a one-octet tag and n value octets
DoLen(n) == 1 + BerLenOctets(n) + n

PlainExt(nc, ne) == nc > 255 \/ ne > 256

Protect(odd, nc, ne, bs) ==
  LET v87   == 1 + PadLen(nc, bs)                  \* padding-content indicator + cryptogram
      do87  == IF nc = 0 THEN 0 ELSE DoLen(v87)
      v97   == IF PlainExt(nc, ne) THEN 2 ELSE 1   \* Le octets of the plain command
      do97  == IF ne = 0 THEN 0 ELSE DoLen(v97)
      do8e  == DoLen(8)
      ncP   == do87 + do97 + do8e
      neP   == IF PlainExt(nc, ne) THEN 65536 ELSE 256
  IN [cla |-> 12,
      tag87 |-> IF nc = 0 THEN 0 ELSE IF odd THEN 133 ELSE 135,
      v87 |-> IF nc = 0 THEN 0 ELSE v87,
      has97 |-> ne # 0,
      v97 |-> IF ne = 0 THEN << >> ELSE IF PlainExt(nc, ne) THEN << Hi(ne), Lo(ne) >> ELSE << Lo(ne) >>,
      nc |-> ncP, ne |-> neP,
      fits |-> ncP <= MaxNc,
      lc |-> IF ncP <= MaxNc THEN Encode(ncP, neP).lc ELSE << >>,
      le |-> IF ncP <= MaxNc THEN Encode(ncP, neP).le ELSE << >>]
=============================================================================
