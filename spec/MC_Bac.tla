------------------------------- MODULE MC_Bac -------------------------------
EXTENDS Bac, TLC
Emit == Done => PrintT(<< "T", termMrz, chipMrz, source, termResult >>)
=============================================================================
