---------------------------- MODULE MC_ActiveAuth ----------------------------
EXTENDS ActiveAuth, TLC
Emit == Done => PrintT(<< "T", source, response, offline, live, off >>)
=============================================================================
