CONSTANT Diag = TRUE
INIT TInit
NEXT TNext
INVARIANTS TInv Accepted
