------------------------------- MODULE Session -------------------------------
(***************************************************************************)
(* The reader pipeline (reader.ReadDocument, 13 steps in the order of        *)
(* runSteps) against a chip described by a configuration record, with an      *)
(* optional single link fault (C08, C11, end-to-end half of C02).             *)
(*                                                                         *)
(* Layered contract (DESIGN.md 2.1): one file read returns the exact file,    *)
(* "not found" or an error (C13); a protocol run succeeds iff ... (C04-C07);   *)
(* passive authentication accepts iff ... (C01).  This module composes them.   *)
(*                                                                         *)
(* chip configuration c:                                                      *)
(*   access   "bac" | "pace" | "pace+bac" | "cam" | "cam+bac"                  *)
(*   dgs      data groups besides DG1 / DG14 / DG15 stored AND listed in SOD   *)
(*   aa       "none" | "rsa" | "ecdsa"      ca  BOOLEAN                        *)
(*   trusted  issuing CSCA in the reader's trust store                         *)
(*   kind     "genuine" | "clone-copy" (all files copied, no private keys)     *)
(*            | "clone-own-keys" (own DG14/DG15 keys: files differ from what    *)
(*              the SOD lists) | "strip14" | "strip15" (file withheld, still     *)
(*              listed) | "downgrade" (CardAccess infos not contained in DG14)   *)
(* reader options o: skipPace, skipImages, pw ("mrz" | "can")                   *)
(***************************************************************************)
EXTENDS Integers, FiniteSets, Sequences

Steps == << "atr", "selectMF", "cardAccess", "pace", "selectApp", "bac", "dir", "sod", "com", "dgs", "chipauth", "verify", "pa" >>

HasPace(c) == c.access \in {"pace", "pace+bac", "cam", "cam+bac"}
HasBac(c)  == c.access \in {"bac", "pace+bac", "cam+bac"}
HasCam(c)  == c.access \in {"cam", "cam+bac"}
HoldsKeys(c) == c.kind \in {"genuine", "strip14", "strip15", "downgrade"}

\* files the issuer listed in the security object
Listed(c) == {1} \cup c.dgs \cup (IF c.ca \/ HasPace(c) \/ c.aa = "ecdsa" THEN {14} ELSE {}) \cup (IF c.aa # "none" THEN {15} ELSE {})
\* files stored on the chip
OnChip(c) == Listed(c) \ ((IF c.kind = "strip14" THEN {14} ELSE {}) \cup (IF c.kind = "strip15" THEN {15} ELSE {}))

\* ---- fault-free expected outcome ---------------------------------------------------------------
PaceTried(c, o) == HasPace(c) /\ ~o.skipPace
SmAfterPace(c, o) == PaceTried(c, o)                       \* right password: the chip completes PACE
CamOK(c, o) == PaceTried(c, o) /\ HasCam(c) /\ HoldsKeys(c)
PaceReported(c, o) == PaceTried(c, o) /\ (HasCam(c) => CamOK(c, o))      \* as built: a failed mapping check fails the PACE result
BacTried(c, o) == ~SmAfterPace(c, o) /\ o.pw = "mrz"
BacOK(c, o) == BacTried(c, o) /\ HasBac(c)
AccessOK(c, o) == SmAfterPace(c, o) \/ BacOK(c, o)

Wanted(c, o) == { n \in Listed(c) : ~(o.skipImages /\ n \in {2, 7}) }
Obtained(c, o) == IF AccessOK(c, o) THEN Wanted(c, o) \cap OnChip(c) ELSE {}

AaTried(c, o) == 15 \in Obtained(c, o)
AaOK(c, o) == AaTried(c, o) /\ HoldsKeys(c)
CaTried(c, o) == ~(AaOK(c, o) \/ CamOK(c, o)) /\ 14 \in Obtained(c, o) /\ c.ca       \* as built: CA only if nothing else completed
CaOK(c, o) == CaTried(c, o) /\ HoldsKeys(c)

Complete(c, o) == /\ AccessOK(c, o)
                  /\ (14 \in Listed(c) => 14 \in Obtained(c, o))
                  /\ (15 \in Listed(c) => 15 \in Obtained(c, o))
                  /\ ~(c.kind = "downgrade" /\ HasPace(c) /\ 14 \in Obtained(c, o))
\* hashes: a clone with its own keys stores DG14/DG15 that differ from what the issuer signed
HashesOK(c, o) == ~(c.kind = "clone-own-keys" /\ (Obtained(c, o) \cap {14, 15}) # {})
PaOK(c, o) == AccessOK(c, o) /\ c.trusted /\ HashesOK(c, o)
CardSecOK(c, o) == CamOK(c, o) \/ (PaceTried(c, o) /\ HasCam(c))          \* CardSecurity was read and is the issuer's

DataTrusted(c, o) == PaOK(c, o) /\ Complete(c, o)
ChipAuth(c, o) == IF ~PaOK(c, o) THEN "NONE"
                  ELSE IF AaOK(c, o) THEN "AA"
                  ELSE IF CamOK(c, o) THEN "PACE_CAM"
                  ELSE IF CaOK(c, o) THEN "CA" ELSE "NONE"

\* ---- progress reports (reader.ReaderStatus): the phases of a fault-free read that gets access, in order -------
\* 1 connecting, 2 EF.CardAccess, 3 PACE (unless skipped), 4 BAC (only without a session after PACE), 5 EF.DIR,
\* 6 EF.SOD, 7 EF.COM, then one phase 8 per data group in the order of the security object's hash list (images
\* skipped on request), 9 AA (always), 10 CA (only if nothing authenticated the chip yet), 11 completeness,
\* 12 passive authentication, 13 finished.  A phase says which step was entered, not that it found work.
PhasesBefore(c, o) == << 1, 2 >> \o (IF o.skipPace THEN << >> ELSE << 3 >>) \o (IF SmAfterPace(c, o) THEN << >> ELSE << 4 >>) \o << 5, 6, 7 >>
PhasesAfter(c, o) == << 9 >> \o (IF AaOK(c, o) \/ CamOK(c, o) THEN << >> ELSE << 10 >>) \o << 11, 12, 13 >>
\* the data groups for which a reading phase is reported: every listed one the reader wants (stored or not)
DgPhases(c, o) == Wanted(c, o)

Expected(c, o) == [access |-> AccessOK(c, o), obtained |-> Obtained(c, o),
                   phasesBefore |-> PhasesBefore(c, o), phasesAfter |-> PhasesAfter(c, o), dgPhases |-> DgPhases(c, o),
                   pace |-> IF PaceTried(c, o) THEN (IF PaceReported(c, o) THEN "ok" ELSE "failed") ELSE "absent",
                   cam |-> IF CamOK(c, o) THEN "ok" ELSE "absent",
                   bac |-> IF BacTried(c, o) THEN (IF BacOK(c, o) THEN "ok" ELSE "failed") ELSE "absent",
                   aa |-> IF AaTried(c, o) THEN (IF AaOK(c, o) THEN "ok" ELSE "failed") ELSE "absent",
                   ca |-> IF CaTried(c, o) THEN (IF CaOK(c, o) THEN "ok" ELSE "failed") ELSE "absent",
                   complete |-> Complete(c, o), pa |-> PaOK(c, o),
                   trusted |-> DataTrusted(c, o), chipAuth |-> ChipAuth(c, o)]

\* ---- C08 (conforming chip, right password, supported arrangement) ---------------------------------
Premise(c, o) == c.kind = "genuine" /\ AccessOK(c, o)
C08(c, o) == Premise(c, o) =>
               /\ Obtained(c, o) = Wanted(c, o)                                   \* every listed + stored DG read
               /\ (PaceTried(c, o) => PaceReported(c, o))
               /\ (BacTried(c, o) => BacOK(c, o))
               /\ (c.aa # "none" => AaOK(c, o))
               /\ (HasCam(c) /\ PaceTried(c, o) => CamOK(c, o))
               /\ ((c.ca /\ c.aa = "none" /\ ~CamOK(c, o)) => CaOK(c, o))          \* as built: CA when nothing else completed
               /\ (PaOK(c, o) <=> c.trusted)

\* ---- C02, end-to-end ---------------------------------------------------------------------------------
C02(c, o) == /\ (c.kind \in {"clone-copy", "clone-own-keys"} => ChipAuth(c, o) = "NONE")
             /\ (c.kind = "clone-own-keys" /\ (Obtained(c, o) \cap {14, 15}) # {} => ~DataTrusted(c, o))
             /\ (c.kind \in {"strip14", "strip15"} /\ AccessOK(c, o) => ~DataTrusted(c, o))
             /\ (c.kind = "downgrade" /\ HasPace(c) /\ 14 \in Obtained(c, o) => ~DataTrusted(c, o))

\* ---- C11: one link fault ------------------------------------------------------------------------------
\* which steps exchange APDUs at all in this configuration
Active(c, o, s) ==
  CASE s = "atr" -> FALSE
    [] s = "selectMF" -> TRUE
    [] s = "cardAccess" -> TRUE
    [] s = "pace" -> PaceTried(c, o)
    [] s = "selectApp" -> TRUE
    [] s = "bac" -> BacTried(c, o)
    [] s = "dir" -> TRUE
    [] s = "sod" -> TRUE
    [] s = "com" -> TRUE
    [] s = "dgs" -> TRUE
    [] s = "chipauth" -> AaTried(c, o) \/ CaTried(c, o) \/ (14 \in Obtained(c, o) /\ c.ca)
    [] OTHER -> FALSE
\* how the pipeline may continue when an exchange of step s fails (reader.go):
\*   "tolerate"  the error is ignored                      (selectMF)
\*   "record"    the step's result is recorded as failed, the read goes on (pace, bac, chipauth)
\*   "abort"     ReadDocument returns an error with the partial document
\*   "retry"     first-block Le fall-back inside a file read
Continuations(s) ==
  CASE s = "selectMF" -> {"tolerate"}
    [] s \in {"pace", "bac", "chipauth"} -> {"record"}
    [] s \in {"cardAccess", "dir", "sod", "com", "dgs"} -> {"abort", "retry"}
    [] s = "selectApp" -> {"abort", "tolerate"}
    [] OTHER -> {}
\* safety under any continuation: nothing a fault can do makes the verdicts better than fault-free
FaultSafe(c, o, s) == Active(c, o, s) => Continuations(s) # {}

\* C11, first clause: "the read ends with an error or with that step recorded as failed".  The observable outcome of a
\* read with ONE faulted exchange, relative to the fault-free read of the same chip, is
\*   err      ReadDocument returned an error
\*   steps    "same" | "changed": the recorded step outcomes (pace, cam, bac, aa, ca, completeness, pa) equal the fault-free ones
\*   files    "same" | "fewer"  : the set of files obtained, relative to the fault-free read
\* What each continuation may produce:
OutcomeOf(cont) == CASE cont = "abort"    -> [err |-> TRUE,  steps |-> "any",     files |-> "any"]
                     [] cont = "record"   -> [err |-> FALSE, steps |-> "changed", files |-> "any"]
                     [] cont = "tolerate" -> [err |-> FALSE, steps |-> "same",    files |-> "same"]
                     [] cont = "retry"    -> [err |-> FALSE, steps |-> "same",    files |-> "same"]
\* the clause as a predicate on an observed outcome: no error and no changed step outcome => nothing was lost
NoSilentLoss(obs) == (~obs.err /\ obs.steps = "same") => obs.files = "same"
\* every continuation the pipeline has satisfies it
ContinuationsSound == \A s \in {"selectMF", "cardAccess", "pace", "selectApp", "bac", "dir", "sod", "com", "dgs", "chipauth"} :
                        \A k \in Continuations(s) : LET oc == OutcomeOf(k) IN
                          \A st \in (IF oc.steps = "any" THEN {"same", "changed"} ELSE {oc.steps}), f \in (IF oc.files = "any" THEN {"same", "fewer"} ELSE {oc.files}) :
                             NoSilentLoss([err |-> oc.err, steps |-> st, files |-> f])
=============================================================================
