CONSTANTS
  Part = "once"
  G = {"g1"}
  Programs <- ProgOne
  NExch = 1  WholeCall = TRUE  Locked = TRUE  NotifyInside = TRUE
  V = {"v1"} DocOf <- DocOf1 SignTime <- SignTimeAB ValidAt <- ValidAtAB PerCallContext = TRUE
  C = {"c1", "c2", "c3", "c4"}
INIT Init
NEXT Next
INVARIANTS InitOnce AllSeeThePool
