INIT Init
NEXT Next
INVARIANTS Plumbing Exact HardFail Reproduces Emit
