CONSTANT RetryFresh = FALSE
INIT Init
NEXT Next
INVARIANTS Plumbing Recorded Exact HardFail Reproduces Emit
