\* the design reporting 'finished' after the lock is released must violate CallbacksSerial
CONSTANTS
  Part = "shared"
  G = {"g1", "g2", "g3"}
  Programs <- ProgShared
  NExch = 2  WholeCall = TRUE  Locked = TRUE  NotifyInside = FALSE
  V = {"v1"} DocOf <- DocOf1 SignTime <- SignTimeAB ValidAt <- ValidAtAB PerCallContext = TRUE
  C = {"c1"}
INIT Init
NEXT Next
INVARIANTS CallbacksSerial
