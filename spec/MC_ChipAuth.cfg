INIT Init
NEXT Next
INVARIANTS Soundness Completeness Emit
