CONSTANTS
  MaxDepth = 50
  MaxNodes = 10000
  MaxLen = 5
  Alphabet = {0, 1, 2, 4, 31, 48, 63, 127, 128, 129, 130, 132, 133, 255}
INIT Init
NEXT Next
INVARIANTS LawInv UnwrapInv Emit
