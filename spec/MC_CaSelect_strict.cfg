CONSTANT Strict = TRUE
INIT Init
NEXT Next
INVARIANTS InvSelectOK
