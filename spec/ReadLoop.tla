------------------------------ MODULE ReadLoop ------------------------------
(***************************************************************************)
(* The read loop of NfcSession.ReadFile for EVERY file size, read size,      *)
(* response cap and chunking (C13: "for all ... total sizes from 2 bytes to   *)
(* the 64 KiB limit, all chip chunking behaviours ..., all max-read settings   *)
(* 1..65536").  ReadFile.tla is checked by TLC over boundary sets of these      *)
(* parameters; here the same loop, with the parameters as unconstrained          *)
(* integers, carries an inductive invariant that Apalache discharges - so          *)
(* `Exact' holds for all 65 534 sizes x 65 536 read sizes x every way a chip may     *)
(* split its answers, not for the sizes somebody thought of.                         *)
(*                                                                           *)
(*   Hdr        READ BINARY(0, 4): the chip returns n <= 4 octets (fewer if the     *)
(*              file is shorter, or a chip that answers short)                       *)
(*   Issue      next READ BINARY at offset = octets held, Le = min(lim, remaining)    *)
(*              where lim is the configured maximum or a smaller ladder value           *)
(*   Serve      the chip returns any 1..Le octets it has at that offset (or refuses)    *)
(* An answer comes from the selected file at the requested offset exactly when the      *)
(* offset's high octet has bit 8 clear (P1 < 128); from offset 32768 on a conforming     *)
(* chip serves "short EF identifier" semantics: other octets.  Refuse = TRUE is the        *)
(* intended design (such offsets are not requested), Refuse = FALSE the library as built     *)
(* (known finding C13): Apalache must find the counterexample to Exact there.                 *)
(***************************************************************************)
EXTENDS Integers

CONSTANTS
  \* @type: Int;
  H,        \* header octets of the top-level object (2..5)
  \* @type: Int;
  V,        \* value octets
  \* @type: Int;
  Slack,    \* octets stored in the EF behind the object
  \* @type: Int;
  MaxLe,    \* configured maximum read size
  \* @type: Bool;
  Refuse    \* offsets >= 32768 are refused (intended) instead of being sent with P1 bit 8 set (as built)

VARIABLES
  \* @type: Str;
  pc,       \* "hdr" | "loop" | "chip" | "exact" | "err"
  \* @type: Int;
  buf,      \* octets held
  \* @type: Int;
  total,    \* length computed from the header (-1 before)
  \* @type: Int;
  off,      \* offset of the request on the wire
  \* @type: Int;
  le,       \* its Le
  \* @type: Bool;
  genuine,  \* every octet held came from the selected file at the offset equal to the octets held before it
  \* @type: Int;
  chunks

CInitIntended == /\ H \in 2..5 /\ V \in 0..65535 /\ Slack \in 0..7 /\ MaxLe \in 1..65536 /\ Refuse = TRUE
CInitAsBuilt  == /\ H \in 2..5 /\ V \in 0..65535 /\ Slack \in 0..7 /\ MaxLe \in 1..65536 /\ Refuse = FALSE

Min(a, b) == IF a < b THEN a ELSE b
Ef == H + V + Slack

Init == /\ pc = "hdr" /\ buf = 0 /\ total = -1 /\ off = 0 /\ le = 0 /\ genuine = TRUE /\ chunks = 0

\* header read: n octets, n <= 4 and n <= what the file holds
Hdr == /\ pc = "hdr"
       /\ \E n \in 0..4 :
            /\ n <= Ef
            /\ IF n < H THEN pc' = "err" /\ buf' = n /\ total' = total
               ELSE /\ total' = H + V
                    /\ IF n >= H + V THEN pc' = "exact" /\ buf' = H + V      \* the object fits the header read: cut there
                       ELSE pc' = "loop" /\ buf' = n
       /\ UNCHANGED << off, le, genuine, chunks >>

\* next request; lim is the maximum in force (the configured one or a ladder value below it)
Issue == /\ pc = "loop"
         /\ \E lim \in 1..65536 :
              /\ lim <= MaxLe
              /\ IF chunks >= 1000 \/ (Refuse /\ buf >= 32768)
                 THEN pc' = "err" /\ UNCHANGED << off, le, chunks >>
                 ELSE /\ off' = buf /\ le' = Min(lim, total - buf) /\ chunks' = chunks + 1 /\ pc' = "chip"
         /\ UNCHANGED << buf, total, genuine >>

\* the chip's answer
Serve == /\ pc = "chip"
         /\ \/ \* refused (Le too large for this chip, a fault): the terminal tries a smaller size or gives up
               /\ pc' \in {"loop", "err"} /\ UNCHANGED << buf, genuine >>
            \/ \* n octets, 1 <= n <= Le; from the selected file at `off' only when P1 bit 8 is clear
               \E n \in 1..65536 :
                 /\ n <= le
                 /\ (off < 32768 => off + n <= Ef)
                 /\ buf' = buf + n
                 /\ genuine' = (genuine /\ off < 32768)
                 /\ pc' = IF buf + n >= total THEN "exact" ELSE "loop"
         /\ UNCHANGED << total, off, le, chunks >>

Next == Hdr \/ Issue \/ Serve

\* ---- what C13 states -------------------------------------------------------------------------------
Exact == pc = "exact" => (genuine /\ buf = H + V /\ total = H + V)

\* ---- the inductive invariant ---------------------------------------------------------------------------
TypeOK == /\ pc \in {"hdr", "loop", "chip", "exact", "err"}
          /\ buf \in 0..70000 /\ total \in -1..70000 /\ off \in 0..70000 /\ le \in 0..65536 /\ chunks \in 0..1000
IndInv == /\ TypeOK
          /\ genuine = TRUE
          /\ (pc = "hdr" => buf = 0 /\ total = -1)
          /\ (pc \in {"loop", "chip", "exact"} => total = H + V /\ buf <= total)
          /\ (pc \in {"loop", "chip"} => buf < total)
          /\ (pc = "chip" => off = buf /\ le >= 1 /\ le <= total - buf /\ off < 32768)
          /\ (pc = "exact" => buf = total)
\* as built the clause "off < 32768" is not an invariant: IndInvAsBuilt drops it (and `genuine'), and Exact fails
=============================================================================
