----------------------------- MODULE PassiveAuth -----------------------------
(***************************************************************************)
(* ICAO Doc 9303-11 section 5.1 / 9303-12: passive authentication (C01,     *)
(* C09), at the level of ATOMIC FACTS about a document and a trust store.   *)
(* The facts are computed from concrete bytes by an independent verifier     *)
(* (harness/pki.ComputeFacts); this module says how they combine.            *)
(*                                                                         *)
(* A security object (EF.SOD or EF.CardSecurity) is a record                *)
(*   [parse   |-> the SignedData / security object could be read,            *)
(*    signers |-> sequence of signer facts,                                   *)
(*    certs   |-> sequence of embedded-certificate facts]                     *)
(* signer:  [attrs, ctOK, mdOK  : the signed attributes exist, contentType    *)
(*                                equals eContentType, messageDigest equals    *)
(*                                the digest of the eContent actually present, *)
(*           time : "none" | "t"  a signing time is stated,                    *)
(*           sid  : set of embedded certificates the signer identifier names,  *)
(*           sig  : set of embedded certificates whose key verifies the sig.]  *)
(* cert:    [v : "in" | "out"   validity window contains the signing time,     *)
(*           unknownCrit, hasKU, digSig, ekuOK, hasAKI,                        *)
(*           aki : set of anchors whose subject key id equals its authority id,*)
(*           by  : set of anchors whose key verifies its signature]            *)
(* anchor:  [country : "doc" | "other", v, isCA, hasKU, certSign, unknownCrit,  *)
(*           ekuBad (critical EKU without anyExtendedKeyUsage)]                *)
(* A document is  [sod, cardsec (or NoObj), dgOK (every data group present     *)
(* hashes to the value recorded for its number), countryOK (embedded           *)
(* certificates name one issuing country and DG1, if present, names the same), *)
(* anchors]                                                                    *)
(***************************************************************************)
EXTENDS Integers, Sequences, FiniteSets

NoObj == [parse |-> FALSE, signers |-> << >>, certs |-> << >>, absent |-> TRUE]

Idx(s) == 1..Len(s)

\* ---- the property's first sentence, declaratively ------------------------------------------------
TimeOK(v, time) == time = "none" \/ v = "in"

DsUsable(c, time) == ~c.unknownCrit /\ c.hasKU /\ c.digSig /\ TimeOK(c.v, time)
CaUsable(a, time) == a.country = "doc" /\ a.isCA /\ a.hasKU /\ a.certSign /\ ~a.unknownCrit /\ TimeOK(a.v, time)

SignerValid(obj, anchors, s) ==
  /\ s.attrs /\ s.ctOK /\ s.mdOK
  /\ \E i \in Idx(obj.certs) :
        /\ i \in s.sig                                    \* the signature verifies under a certificate it carries
        /\ DsUsable(obj.certs[i], s.time)
        /\ \E j \in Idx(anchors) : j \in obj.certs[i].by /\ CaUsable(anchors[j], s.time)

ObjValid(obj, anchors) == /\ obj.parse /\ Len(obj.signers) >= 1
                          /\ \A k \in Idx(obj.signers) : SignerValid(obj, anchors, obj.signers[k])

Valid(d) == /\ d.dgOK /\ d.countryOK
            /\ ObjValid(d.sod, d.anchors)
            /\ ("absent" \in DOMAIN d.cardsec \/ ObjValid(d.cardsec, d.anchors))

\* ---- the procedure as built (passiveauth.PassiveAuth, cms.SignedData.Verify) ------------------------
\* reference time: each signer info is checked against its own stated signing time
\* (before commit 0b64fc2 the code kept the time of the FIRST signer info for all later ones)

\* selectCertificate: exactly one certificate named by the signer identifier, else the sole embedded one
Selected(obj, s) == IF Cardinality(s.sid) = 1 THEN CHOOSE i \in s.sid : TRUE
                    ELSE IF Len(obj.certs) = 1 THEN 1 ELSE 0

\* verifyParentCandidate
CandidateOK(c, a, time, j) ==
  /\ ~a.unknownCrit /\ a.isCA /\ a.hasKU /\ a.certSign /\ ~a.ekuBad /\ TimeOK(a.v, time) /\ j \in c.by

\* Certificate.Verify: candidates = anchors of the document's country whose key id matches
ChainAnchor(c, anchors, time) ==
  LET cands == { j \in Idx(anchors) : anchors[j].country = "doc" /\ j \in c.aki }
      good  == { j \in cands : CandidateOK(c, anchors[j], time, j) }
  IN IF c.unknownCrit \/ ~TimeOK(c.v, time) \/ ~c.hasAKI \/ good = {} THEN 0
     ELSE CHOOSE j \in good : \A k \in good : j <= k                  \* first in store order

SignerAccepted(obj, anchors, s, time) ==
  /\ s.attrs /\ s.ctOK /\ s.mdOK
  /\ LET i == Selected(obj, s) IN
     /\ i # 0
     /\ LET c == obj.certs[i] IN
        /\ ~c.unknownCrit /\ c.hasKU /\ c.digSig /\ c.ekuOK
        /\ TimeOK(c.v, time)
        /\ i \in s.sig
        /\ ChainAnchor(c, anchors, time) # 0

ObjAccepted(obj, anchors) == /\ obj.parse /\ Len(obj.signers) >= 1
                             /\ \A k \in Idx(obj.signers) : SignerAccepted(obj, anchors, obj.signers[k], obj.signers[k].time)

AsBuiltAccepts(d) == /\ d.countryOK
                     /\ \E j \in Idx(d.anchors) : d.anchors[j].country = "doc"      \* country pool not empty
                     /\ d.dgOK
                     /\ ObjAccepted(d.sod, d.anchors)
                     /\ ("absent" \in DOMAIN d.cardsec \/ ObjAccepted(d.cardsec, d.anchors))

\* ---- C09: what a correctly issued document looks like; such a document must be accepted -------------
\* (every signer: attributes right, identifier names exactly the signing certificate or it is the only
\* one, certificate and anchor usable, anchor identified by key identifier)
GenuineSigner(obj, anchors, s) ==
  /\ s.attrs /\ s.ctOK /\ s.mdOK
  /\ \E i \in Idx(obj.certs) :
        /\ i \in s.sig /\ (s.sid = {i} \/ Len(obj.certs) = 1)
        /\ LET c == obj.certs[i] IN
           /\ DsUsable(c, s.time) /\ c.ekuOK /\ c.hasAKI
           /\ \E j \in Idx(anchors) : j \in c.by /\ j \in c.aki /\ CaUsable(anchors[j], s.time) /\ ~anchors[j].ekuBad

GenuineObj(obj, anchors) == /\ obj.parse /\ Len(obj.signers) >= 1
                            /\ \A k \in Idx(obj.signers) : GenuineSigner(obj, anchors, obj.signers[k])

Genuine(d) == /\ d.dgOK /\ d.countryOK
              /\ GenuineObj(d.sod, d.anchors)
              /\ ("absent" \in DOMAIN d.cardsec \/ GenuineObj(d.cardsec, d.anchors))

\* ---- theorems checked by TLC over the fact space -------------------------------------------------------
Soundness(d)    == AsBuiltAccepts(d) => Valid(d)
Completeness(d) == Genuine(d) => AsBuiltAccepts(d)
=============================================================================
