INIT Init
NEXT Next
INVARIANT Done
