--------------------------- MODULE MC_ReadSession ---------------------------
EXTENDS ReadSession
LadderSeq == << 256, 192, 128 >>
FilesQ == {<<2, 1, TRUE>>, <<2, 30, TRUE>>, <<4, 300, TRUE>>, <<4, 700, TRUE>>, <<2, 0, FALSE>>}
Init == \E ml \in {256, 65536}, ro \in {0, 200, 150, 100}, cp \in {0, 100} : SInit(ml, ro, cp)
\* one row per finished session: chip and terminal settings, what the environment did, what every read returned
Emit == Finished => PrintT(<< "H", cfg.maxLe0, cfg.rejectOver, cfg.cap, script, Results >>)
Spec == Init /\ [][SNext]_allvars
=============================================================================
