\* small limits so that the depth / count refusals are reached by strings of length <= 6; laws only
CONSTANTS
  MaxDepth = 1
  MaxNodes = 2
  MaxLen = 6
  Alphabet = {0, 2, 4, 48, 128}
INIT Init
NEXT Next
INVARIANTS LawInv UnwrapInv
