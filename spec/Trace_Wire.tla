------------------------------ MODULE Trace_Wire ------------------------------
(* Validates the chip-side command record of real reads against Wire.tla.  trace.ndjson: one line per command  *)
(* the chip received, {"ins","p1","p2","chain","sec","nc","ne","tags","fid","sw"}; index.ndjson: one line per     *)
(* read, {"from","to","rd":{skipPace, skipImages, pw, order, cam, ca}}.  Every read is an initial state of its     *)
(* own; silent steps and the "file complete" step are placed by TLC.  ACCEPT is printed for a read whose every      *)
(* command was one Wire.tla allows in its state and that ends in the final step; AT lines tell how far a read got.   *)
EXTENDS Wire, TLC, Json
CONSTANT Diag          \* TRUE: print how far every read got (second pass, only when a read was not accepted)
VARIABLES tr, l
Trace == ndJsonDeserialize("trace.ndjson")
Index == ndJsonDeserialize("index.ndjson")
TInit == /\ tr \in 1..Len(Index) /\ l = Index[tr].from /\ WInit(Index[tr].rd)
TSilent == (Silent \/ Advance) /\ UNCHANGED << tr, l >>
TCmd == /\ l <= Index[tr].to /\ Cmd(Trace[l]) /\ l' = l + 1 /\ tr' = tr
        /\ (Diag => PrintT(<< "AT", tr, l >>))
TNext == TSilent \/ TCmd
TInv == TypeOK /\ AccessBeforeFiles /\ CaOnlyIfNeeded
Accepted == (l = Index[tr].to + 1 /\ step = "end") => PrintT(<< "ACCEPT", tr >>)
=============================================================================
