-------------------------------- MODULE Wire --------------------------------
(***************************************************************************)
(* The command language of a whole read as the chip sees it: which command   *)
(* reader.ReadDocument may send next, given what it has sent and what the     *)
(* chip has answered.  One action per command; the chip's status word is      *)
(* taken from the observation, everything else (instruction, parameters,      *)
(* data objects, protected or not, order of steps and of files) is the         *)
(* specification's.  This is the terminal side of Doc 9303-10 / -11 as the      *)
(* library implements it (reader.go runSteps, NfcSession, bac, pace,             *)
(* chipauth, activeauth), written down once, independent of the Go code, and      *)
(* bound to it by validating the chip-side record of every real read             *)
(* (Trace_Wire).  It also carries C10's "no plain command while a session is       *)
(* installed" through the whole pipeline.                                          *)
(*                                                                           *)
(* A read is described by rd:                                                  *)
(*   skipPace, skipImages : BOOLEAN      reader options                         *)
(*   pw     "mrz" | "can"                                                       *)
(*   order  sequence of data group numbers = hash list of the security object   *)
(*   cam    the PACE protocol the chip offers is a chip-authentication mapping  *)
(*   ca     DG14 advertises Chip Authentication                                  *)
(* A command e: ins, p1, p2, chain (CLA bit 5), sec (arrived protected and        *)
(* verified), nc, ne, tags (data objects of the data field; for 7C templates      *)
(* the objects inside), fid (file identifier of a SELECT by file id), sw.          *)
(***************************************************************************)
EXTENDS Integers, Sequences, FiniteSets

OK == 36864                     \* 9000
NotFound == {27266, 25219}      \* 6A82, 6283 (treated alike by SelectEF)

FidCardAccess == 284            \* 011C
FidCardSecurity == 285          \* 011D (in the MF)
FidSOD == 285                   \* 011D (in the application)
FidCOM == 286                   \* 011E
FidDIR == 12032                 \* 2F00
FidDG(n) == 256 + n             \* 01xx

\* the commands
IsSelectMF(e, withData) == e.ins = 164 /\ e.p1 = 0 /\ e.p2 = 12 /\ e.nc = (IF withData THEN 2 ELSE 0)
IsSelectEF(e, fid) == e.ins = 164 /\ e.p1 = 2 /\ e.p2 = 12 /\ e.nc = 2 /\ e.fid = fid
IsSelectApp(e) == e.ins = 164 /\ e.p1 = 4 /\ e.p2 = 12 /\ e.nc = 7
IsReadBinary(e) == e.ins = 176 /\ e.nc = 0 /\ e.ne >= 1
TagSet(e) == {e.tags[i] : i \in 1..Len(e.tags)}
IsMsePace(e) == e.ins = 34 /\ e.p1 = 193 /\ e.p2 = 164 /\ TagSet(e) \in {{128, 131}, {128, 131, 132}} /\ Len(e.tags) = Cardinality(TagSet(e))
IsGA(e, chain, tags) == e.ins = 134 /\ e.p1 = 0 /\ e.p2 = 0 /\ e.chain = chain /\ e.tags = tags /\ e.ne >= 256
IsGetChallenge(e) == e.ins = 132 /\ e.p1 = 0 /\ e.p2 = 0 /\ e.nc = 0 /\ e.ne = 8
IsExtAuth(e) == e.ins = 130 /\ e.p1 = 0 /\ e.p2 = 0 /\ e.nc = 40 /\ e.ne = 40
IsIntAuth(e) == e.ins = 136 /\ e.p1 = 0 /\ e.p2 = 0 /\ e.nc = 8 /\ e.ne >= 256
IsMseKat(e) == e.ins = 34 /\ e.p1 = 65 /\ e.p2 = 166 /\ TagSet(e) \in {{145}, {145, 132}} /\ Len(e.tags) = Cardinality(TagSet(e))
IsMseCaAt(e) == e.ins = 34 /\ e.p1 = 65 /\ e.p2 = 164 /\ TagSet(e) \in {{128}, {128, 132}} /\ Len(e.tags) = Cardinality(TagSet(e))

Steps == << "selectMF", "cardAccess", "pace", "cardSecurity", "selectApp", "bac", "dir", "sod", "com", "dgs", "aa", "ca", "end" >>

VARIABLES rd,        \* the read (see above)
          step,      \* pipeline step
          sub,       \* position inside the step
          sm,        \* the terminal holds a secure messaging session
          idx,       \* next data group of rd.order
          got,       \* data groups obtained
          facts      \* [cardAccess, paceOK, camOK, aaOK]: what the answers so far established
wvars == << rd, step, sub, sm, idx, got, facts >>

Wanted(n) == ~(rd.skipImages /\ n \in {2, 7}) /\ n \in {1, 2, 7, 11, 12, 13, 14, 15, 16}
RECURSIVE NextWanted(_)
NextWanted(i) == IF i > Len(rd.order) THEN i ELSE IF Wanted(rd.order[i]) THEN i ELSE NextWanted(i + 1)

WInit(r) == /\ rd = r /\ step = "selectMF" /\ sub = 0 /\ sm = FALSE /\ idx = 1 /\ got = {}
            /\ facts = [cardAccess |-> FALSE, paceOK |-> FALSE, camOK |-> FALSE, aaOK |-> FALSE]

\* every command after a session was installed arrives protected; none before
Protection(e) == e.sec = sm

Goto(s) == step' = s /\ sub' = 0
Stay(k) == step' = step /\ sub' = k
Keep == UNCHANGED << rd, idx, got, facts, sm >>

\* ---- steps that do not send anything are skipped silently ------------------------------------------------
\* (taken eagerly: the guard of every command action includes "no silent step is due")
Silent ==
  \/ step = "pace" /\ sub = 0 /\ (rd.skipPace \/ ~facts.cardAccess) /\ Goto("selectApp") /\ Keep
  \/ step = "cardSecurity" /\ sub = 0 /\ ~(facts.paceOK /\ rd.cam) /\ Goto("selectApp") /\ Keep
  \/ step = "bac" /\ sub = 0 /\ (sm \/ rd.pw # "mrz") /\ Goto("dir") /\ Keep
  \/ step = "dgs" /\ sub = 0 /\ NextWanted(idx) > Len(rd.order) /\ Goto("aa") /\ UNCHANGED << rd, got, facts, sm >> /\ idx' = NextWanted(idx)
  \/ step = "dgs" /\ sub = 0 /\ NextWanted(idx) <= Len(rd.order) /\ NextWanted(idx) # idx /\ idx' = NextWanted(idx) /\ UNCHANGED << rd, step, sub, got, facts, sm >>
  \/ step = "aa" /\ sub = 0 /\ 15 \notin got /\ Goto("ca") /\ Keep
  \/ step = "ca" /\ sub = 0 /\ (facts.aaOK \/ facts.camOK \/ 14 \notin got \/ ~rd.ca) /\ Goto("end") /\ Keep
SilentDue ==
  \/ step = "pace" /\ sub = 0 /\ (rd.skipPace \/ ~facts.cardAccess)
  \/ step = "cardSecurity" /\ sub = 0 /\ ~(facts.paceOK /\ rd.cam)
  \/ step = "bac" /\ sub = 0 /\ (sm \/ rd.pw # "mrz")
  \/ step = "dgs" /\ sub = 0 /\ (NextWanted(idx) # idx \/ idx > Len(rd.order))
  \/ step = "aa" /\ sub = 0 /\ 15 \notin got
  \/ step = "ca" /\ sub = 0 /\ (facts.aaOK \/ facts.camOK \/ 14 \notin got \/ ~rd.ca)

\* ---- reading one file: SELECT, then READ BINARY commands while the file is being read ----------------------
\* sub = 0: SELECT due; sub = 1: selected, first READ BINARY due; sub = 2: more READ BINARY or the next step (Advance)
\* newFacts: the facts once the file is found; mustExist: a missing file ends the read (not a fault-free trace)
FileStep(e, fid, after, newFacts, mustExist) ==
  \/ /\ sub = 0 /\ IsSelectEF(e, fid)
     /\ (IF e.sw = OK THEN (Stay(1) /\ facts' = newFacts)
         ELSE (e.sw \in NotFound /\ ~mustExist /\ Goto(after) /\ facts' = facts))
     /\ UNCHANGED << rd, idx, got, sm >>
  \/ /\ sub \in {1, 2} /\ IsReadBinary(e) /\ e.sw = OK /\ Stay(2) /\ UNCHANGED << rd, idx, got, facts, sm >>
  \* a chip that refuses the requested length (6700 / 6Cxx): the first-block fall-back asks again with a smaller Le
  \/ /\ sub \in {1, 2} /\ IsReadBinary(e) /\ e.sw # OK /\ Stay(sub) /\ UNCHANGED << rd, idx, got, facts, sm >>

\* ---- one command -----------------------------------------------------------------------------------------------
Cmd(e) ==
  /\ ~SilentDue
  /\ Protection(e)
  /\ \/ \* SELECT MF: implicit form first, explicit form if the chip did not like it; failure tolerated
        /\ step = "selectMF" /\ sub = 0 /\ IsSelectMF(e, FALSE) /\ (IF e.sw = OK THEN Goto("cardAccess") ELSE Stay(1)) /\ Keep
     \/ /\ step = "selectMF" /\ sub = 1 /\ IsSelectMF(e, TRUE) /\ Goto("cardAccess") /\ Keep
     \/ \* EF.CardAccess (may be absent)
        /\ step = "cardAccess" /\ FileStep(e, FidCardAccess, "pace", [facts EXCEPT !.cardAccess = TRUE], FALSE)
     \/ \* PACE: MSE:Set AT, four GENERAL AUTHENTICATE steps (command chaining on all but the last); any refusal ends PACE
        /\ step = "pace" /\ sub = 0 /\ IsMsePace(e) /\ (IF e.sw = OK THEN Stay(1) ELSE Goto("selectApp")) /\ Keep
     \/ /\ step = "pace" /\ sub = 1 /\ IsGA(e, TRUE, << >>) /\ (IF e.sw = OK THEN Stay(2) ELSE Goto("selectApp")) /\ Keep
     \/ /\ step = "pace" /\ sub = 2 /\ IsGA(e, TRUE, << 129 >>) /\ (IF e.sw = OK THEN Stay(3) ELSE Goto("selectApp")) /\ Keep
     \/ /\ step = "pace" /\ sub = 3 /\ IsGA(e, TRUE, << 131 >>) /\ (IF e.sw = OK THEN Stay(4) ELSE Goto("selectApp")) /\ Keep
     \/ /\ step = "pace" /\ sub = 4 /\ IsGA(e, FALSE, << 133 >>)
        /\ (IF e.sw = OK THEN (sm' = TRUE /\ facts' = [facts EXCEPT !.paceOK = TRUE, !.camOK = rd.cam] /\ Goto("cardSecurity"))
                         ELSE (sm' = sm /\ facts' = facts /\ Goto("selectApp")))
        /\ UNCHANGED << rd, idx, got >>
     \/ \* PACE-CAM: EF.CardSecurity from the master file, under the new session
        /\ step = "cardSecurity" /\ FileStep(e, FidCardSecurity, "selectApp", facts, FALSE)
     \/ /\ step = "selectApp" /\ IsSelectApp(e) /\ e.sw = OK /\ Goto("bac") /\ Keep
     \/ \* BAC: only without a session and with an MRZ password
        /\ step = "bac" /\ sub = 0 /\ IsGetChallenge(e) /\ (IF e.sw = OK THEN Stay(1) ELSE Goto("dir")) /\ Keep
     \/ /\ step = "bac" /\ sub = 1 /\ IsExtAuth(e) /\ sm' = (e.sw = OK) /\ Goto("dir") /\ UNCHANGED << rd, idx, got, facts >>
     \/ /\ step = "dir" /\ FileStep(e, FidDIR, "sod", facts, FALSE)
     \/ /\ step = "sod" /\ FileStep(e, FidSOD, "com", facts, TRUE)
     \/ /\ step = "com" /\ FileStep(e, FidCOM, "dgs", facts, FALSE)
     \/ \* the data groups in the order of the hash list
        /\ step = "dgs" /\ idx <= Len(rd.order)
        /\ \/ sub = 0 /\ IsSelectEF(e, FidDG(rd.order[idx]))
              /\ (IF e.sw = OK THEN (Stay(1) /\ got' = got \cup {rd.order[idx]} /\ idx' = idx)
                  ELSE (e.sw \in NotFound /\ Stay(0) /\ got' = got /\ idx' = idx + 1))
              /\ UNCHANGED << rd, facts, sm >>
           \/ sub \in {1, 2} /\ IsReadBinary(e) /\ e.sw = OK /\ Stay(2) /\ UNCHANGED << rd, idx, got, facts, sm >>
           \/ sub \in {1, 2} /\ IsReadBinary(e) /\ e.sw # OK /\ Stay(sub) /\ UNCHANGED << rd, idx, got, facts, sm >>
     \/ \* Active Authentication whenever DG15 was obtained
        /\ step = "aa" /\ IsIntAuth(e) /\ facts' = [facts EXCEPT !.aaOK = (e.sw = OK)] /\ Goto("ca") /\ UNCHANGED << rd, idx, got, sm >>
     \/ \* Chip Authentication only when nothing authenticated the chip yet: MSE:Set KAT, or MSE:Set AT + GENERAL AUTHENTICATE,
        \* then a protected SELECT of DG14 under the NEW session as proof
        /\ step = "ca" /\ sub = 0 /\ IsMseKat(e) /\ (IF e.sw = OK THEN Stay(2) ELSE Goto("end")) /\ Keep
     \/ /\ step = "ca" /\ sub = 0 /\ IsMseCaAt(e) /\ (IF e.sw = OK THEN Stay(1) ELSE Goto("end")) /\ Keep
     \/ /\ step = "ca" /\ sub = 1 /\ IsGA(e, FALSE, << 128 >>) /\ (IF e.sw = OK THEN Stay(2) ELSE Goto("end")) /\ Keep
     \/ /\ step = "ca" /\ sub = 2 /\ IsSelectEF(e, FidDG(14)) /\ Goto("end") /\ Keep

\* a file that was being read is complete when the first command of what follows arrives
FileDone == \/ step \in {"cardAccess", "cardSecurity", "dir", "sod", "com"} /\ sub = 2
            \/ step = "dgs" /\ sub = 2
AfterFile == CASE step = "cardAccess" -> "pace" [] step = "cardSecurity" -> "selectApp" [] step = "dir" -> "sod"
               [] step = "sod" -> "com" [] step = "com" -> "dgs" [] OTHER -> step
Advance == /\ FileDone
           /\ IF step = "dgs" THEN step' = "dgs" /\ sub' = 0 /\ idx' = idx + 1
              ELSE step' = AfterFile /\ sub' = 0 /\ idx' = idx
           /\ UNCHANGED << rd, got, facts, sm >>

\* ---- invariants of the language itself ----------------------------------------------------------------------------
TypeOK == step \in {Steps[i] : i \in 1..Len(Steps)} /\ sub \in 0..4 /\ sm \in BOOLEAN /\ idx \in 1..(Len(rd.order) + 1)
\* a data group is obtained only with a session (access control precedes every read of the application's files)
AccessBeforeFiles == got # {} => sm
\* Chip Authentication is never started after the chip was authenticated by AA or PACE-CAM
CaOnlyIfNeeded == (step = "ca" /\ sub > 0) => ~(facts.aaOK \/ facts.camOK)
=============================================================================
