CONSTANTS
  K = 3
  TwoSigners = FALSE
INIT Init
NEXT Next
VIEW View
INVARIANTS SoundInv CompleteInv BasesGenuine
