\* the design WITHOUT the comparison of the two key agreement keys: TLC must find the reflection counterexample
CONSTANT EchoCheck = FALSE
INIT Init
NEXT Next
INVARIANTS FailClosed
