\* the design WITHOUT the comparison of the two key agreement keys: TLC must find the reflection counterexample
CONSTANT EchoCheck = FALSE
CONSTANT ParamsOfLast = FALSE
INIT Init
NEXT Next
INVARIANTS FailClosed
