---------------------------- MODULE ReadSession ----------------------------
(***************************************************************************)
(* A SESSION of file reads (C13 / C08): the same NfcSession reads several   *)
(* elementary files one after the other.  Two things outlive a single       *)
(* ReadFile call and are therefore session state:                           *)
(*   maxLe    the working read size: once the fall-back ladder found a      *)
(*            smaller Le on the first block of a file it is KEPT for the     *)
(*            files that follow (nfc.maxLe)                                  *)
(*   nothing else - in particular the assembly buffer, the chunk counter     *)
(*            and the ladder position start afresh with every file           *)
(* ReadFile.tla's actions are reused unchanged; NextRead starts the next      *)
(* file, LinkFault lets the link answer one loop read with an error (a       *)
(* transient fault, a tag leaving the field for a moment), after which the    *)
(* caller reads the next file on the same session.                            *)
(*                                                                         *)
(* Design switches for the expected counterexamples (DESIGN.md 3.4):          *)
(*   KeepBuffer   the assembly buffer is session state that is cleared only   *)
(*                on the successful return                                    *)
(*   ProbeOnce    the ladder runs only for the first file of the session      *)
(***************************************************************************)
EXTENDS ReadFile, TLC

CONSTANTS MaxReads, MaxFaults, Files, KeepBuffer, ProbeOnce

VARIABLES nread,      \* files completed so far
          faults,     \* link faults injected so far
          outcomes,   \* sequence of [file, result, clean]: result of every completed read
          clean,      \* no link fault hit the current read
          probed,     \* (ProbeOnce) a first block was read successfully earlier in the session
          stale,      \* (KeepBuffer) octets left in the buffer by a failed read
          script      \* history variable: what the environment did (files chosen, faults injected), for the replay

svars == << nread, faults, outcomes, clean, probed, stale, script >>
allvars == << vars, svars >>

\* Files: set of << h, v, present >>
CfgFor(f, c) == [c EXCEPT !.h = f[1], !.v = f[2], !.ef = f[1] + f[2], !.selSw = IF f[3] THEN "9000" ELSE "6A82"]

SInit(ml, ro, cp) ==
  /\ \E f \in Files :
        /\ script = << << "file", f[1], f[2], f[3] >> >>
        /\ cfg = CfgFor(f, [h |-> 0, v |-> 0, ef |-> 0, maxLe0 |-> ml, cap |-> cp, rejectOver |-> ro, hdrN |-> 4, policy |-> "max", selSw |-> "9000"])
  /\ pc = "select" /\ buf = 0 /\ hdrGot = 0 /\ contiguous = TRUE /\ foreign = FALSE
  /\ total = -1 /\ maxLe = ml /\ chunks = 0 /\ ladder = 0 /\ req = NoReq /\ result = "none"
  /\ nread = 0 /\ faults = 0 /\ outcomes = << >> /\ clean = TRUE /\ probed = FALSE /\ stale = 0

\* one step of the current read
ReadStep ==
  /\ \/ Select \/ HdrIssue \/ ChipHdr \/ LoopIssue
     \/ (ChipLoop /\ ~(ProbeOnce /\ probed /\ buf <= 4 /\ ladder = 0 /\ pc' = "loop" /\ ladder' # 0))
     \* ProbeOnce: a refused first block of a LATER file is not retried with a smaller Le
     \/ (ProbeOnce /\ probed /\ pc = "chip" /\ buf <= 4 /\ ladder = 0 /\ cfg.rejectOver # 0 /\ req.le > cfg.rejectOver
           /\ pc' = "done" /\ result' = "err" /\ req' = NoReq
           /\ UNCHANGED << cfg, buf, hdrGot, contiguous, foreign, total, maxLe, chunks, ladder >>)
  /\ UNCHANGED << nread, faults, outcomes, clean, stale, script >>
  /\ probed' = (probed \/ (pc = "chip" /\ buf <= 4 /\ buf' > buf))

\* the link answers the loop read on the wire with an error status although the chip would have served it
LinkFault ==
  /\ pc = "chip" /\ faults < MaxFaults
  /\ LoopReject
  /\ faults' = faults + 1 /\ clean' = FALSE
  /\ script' = Append(script, << "fault", req.off, req.le >>)
  /\ UNCHANGED << nread, outcomes, probed, stale >>

\* the caller goes on to the next file on the same session
NextRead ==
  /\ pc = "done" /\ nread + 1 < MaxReads
  /\ \E f \in Files :
       /\ cfg' = CfgFor(f, cfg)
       /\ script' = Append(script, << "file", f[1], f[2], f[3] >>)
       /\ outcomes' = Append(outcomes, [h |-> cfg.h, v |-> cfg.v, result |-> result, clean |-> clean,
                                         ok |-> (contiguous /\ ~foreign /\ stale = 0)])
  /\ nread' = nread + 1 /\ clean' = TRUE
  /\ pc' = "select" /\ hdrGot' = 0 /\ contiguous' = TRUE /\ foreign' = FALSE /\ total' = -1
  /\ chunks' = 0 /\ ladder' = 0 /\ req' = NoReq /\ result' = "none"
  /\ maxLe' = maxLe                                               \* the working Le survives
  /\ IF KeepBuffer /\ result = "err" /\ buf > 4
     THEN buf' = 0 /\ stale' = buf            \* what the failed read had assembled is still there
     ELSE buf' = 0 /\ stale' = 0
  /\ UNCHANGED << faults, probed >>

SDone == pc = "done" /\ nread + 1 >= MaxReads /\ UNCHANGED allvars

SNext == ReadStep \/ LinkFault \/ NextRead \/ SDone

\* results of all reads of a finished session, in order
Results == [i \in 1..(Len(outcomes) + 1) |-> IF i <= Len(outcomes) THEN outcomes[i].result ELSE result]
Finished == pc = "done" /\ nread + 1 >= MaxReads

\* ---- properties ---------------------------------------------------------------------------------------
\* every read of the session returns the stored object or an error / not found, whatever happened before
ExactEach == result = "exact" => (contiguous /\ ~foreign /\ stale = 0 /\ buf >= cfg.h + cfg.v /\ total = cfg.h + cfg.v)
\* a chip that only refuses reads above one of the ladder's sizes is read completely: every present file that no
\* link fault hit is returned, whichever files (short, long, absent, faulted) came before it
Servable == cfg.cap = 0 /\ (cfg.rejectOver = 0 \/ \E k \in 1..Len(Ladder) : Ladder[k] <= cfg.rejectOver) /\ cfg.v <= MaxTlv
ReadableEach == (pc = "done" /\ clean /\ Servable /\ cfg.selSw = "9000" /\ cfg.h + cfg.v < 32768) => result = "exact"
\* the working Le only ever shrinks, and only to a ladder value
LeMonotone == [][maxLe' <= maxLe]_allvars
=============================================================================
