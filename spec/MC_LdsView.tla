----------------------------- MODULE MC_LdsView -----------------------------
(* C19: TLC enumerates file shapes over the optional-field / repetition / encoding space and prints   *)
(* the specified view of each (Emit); the harness concretises every shape into bytes and compares the *)
(* view of the real constructors.  Second instance: the raw-bytes life cycle (construct / scribble /  *)
(* edit / export / import), all behaviours printed for replay.                                         *)
EXTENDS LdsView, TLC
CONSTANT Full                      \* TRUE: every optional subset; FALSE: subsets of size <= 2 or >= all-1 (pairwise)
VARIABLE c

Pairwise(S) == {P \in SUBSET S : Cardinality(P) <= 2 \/ Cardinality(P) >= Cardinality(S) - 1}
\* quick: pairwise subsets x every encoding; full: additionally EVERY subset in the plain encoding
TaggedCases(k) == {<< "tagged", k, P, n, e >> : P \in Pairwise(Opt(k)), n \in 0..MaxRep, e \in Encodings}
                  \cup (IF Full THEN {<< "tagged", k, P, n, PlainEncoding >> : P \in SUBSET Opt(k), n \in 0..MaxRep} ELSE {})
\* the ICAO application profile of ISO/IEC 39794-5 allows exactly one representation per block
TplOK(t) == t.enc = "iso39794" => t.n = 1
Tpls == UNION {{s \in [1..len -> [enc : BitEncodings, n : 1..MaxRep]] : \A i \in 1..len : TplOK(s[i])} : len \in 1..MaxRep}
SmallTpls == UNION {{s \in [1..len -> [enc : BitEncodings, n : 1..2]] : \A i \in 1..len : TplOK(s[i])} : len \in 1..2}
Counts == IF Full THEN [InfoTypes -> 0..2]
          ELSE {cn \in [InfoTypes -> 0..2] : Cardinality({t \in InfoTypes : cn[t] = 2}) <= 1 /\ Cardinality({t \in InfoTypes : cn[t] > 0}) <= 3}

Cases ==
       UNION {TaggedCases(k) : k \in {"DG11", "DG12"}}
  \cup {<< "dg2", t >> : t \in Tpls}
  \cup {<< "repeated", k, n, lf >> : k \in {"DG7", "DG16"}, n \in 1..MaxRep, lf \in 0..2}
  \cup {<< "secinfos", k, cn, ids, ord >> : k \in {"DG14", "CardAccess", "CardSecurity"}, cn \in Counts, ids \in BOOLEAN, ord \in {"table", "permuted"}}
  \cup {<< "sod", v, nh, ord >> : v \in 0..1, nh \in 1..MaxRep, ord \in {"ascending", "other"}}
  \cup {<< "wrongdg", k, n >> : k \in Kinds, n \in 1..16}
  \cup {<< "summary", d11, t, n7, com, vi, d12 >> : d11 \in Dg11Shapes, t \in SmallTpls, n7 \in 0..2, com \in BOOLEAN, vi \in BOOLEAN, d12 \in Dg12Shapes}

Expected(x) ==
  CASE x[1] = "tagged"   -> ViewTagged(x[2], x[3], x[4])
    [] x[1] = "dg2"      -> ViewDG2(x[2])
    [] x[1] = "repeated" -> ViewRepeated(x[3])
    [] x[1] = "secinfos" -> ViewSecInfos(x[3])
    [] x[1] = "sod"      -> ViewSOD(x[2], x[3], x[4])
    [] x[1] = "wrongdg"  -> AcceptedAs(x[2], x[3])
    [] x[1] = "summary"  -> [s |-> SummaryOf(x[2], x[3], x[4], x[5], x[6]), img |-> SummaryImages(x[7])]

Init == c \in Cases /\ LInit
Next == UNCHANGED << c, lvars >>

\* the view does not depend on the encoding choices
EncodingIndependent == c[1] = "tagged" => ViewTagged(c[2], c[3], c[4]) = Expected(<< "tagged", c[2], c[3], c[4], PlainEncoding >>)
Laws == /\ (c[1] = "dg2" => NoElementDropped(c[2]))
        /\ (c[1] = "wrongdg" => OneAcceptor(c[2]))
        /\ (c[1] = "summary" => /\ SummaryOf(c[2], c[3], c[4], c[5], c[6]).faceImages = NumImages(c[3])
                                /\ (c[6] => SummaryOf(c[2], c[3], c[4], c[5], c[6]).versionSource = "sod"))
Emit == PrintT(<< "S", c, Expected(c) >>)

\* ---- life cycle instance ----
LifeInit == c = << "life" >> /\ LInit
LifeNext == LNext /\ UNCHANGED c
EmitLife == PrintT(<< "L", hist, objRaw, callerBuf, viewOf, edited >>)
=============================================================================
