CONSTANTS
  ProgName = "enum3"
  G = {"g1", "g2"}
  Programs <- TProg
  NExch = 2  WholeCall = TRUE  Locked = TRUE  NotifyInside = TRUE
  V = {"v1"} DocOf <- DocOf1 SignTime <- SignTimeAB ValidAt <- ValidAtAB PerCallContext = TRUE
  C = {"c1"}
INIT TInit
NEXT TNext
INVARIANTS TInv Accepted
