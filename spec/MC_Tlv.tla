------------------------------- MODULE MC_Tlv -------------------------------
(* Bounded instance for C16: every byte string up to MaxLen over an alphabet that contains every   *)
(* behaviour-changing octet (identifier forms, constructed bit, every length form, EOC).  One       *)
(* state per string.  Invariants are the laws of Tlv.tla; Emit prints the specified outcome        *)
(*   <<"T", input, "rej" | "grey" | <<forest, canonical bytes>> >>                                  *)
(* which vcheck replays into the real tlv.Decode / Encode / NodeByTagOccur / Unwrap / DecodeEncode. *)
(* MaxDepth / MaxNodes are small here so that the limit branches are reached inside the instance;  *)
(* the real limits (50 / 10000) are exercised by generated inputs validated against Trace_Tlv.     *)
EXTENDS Tlv, TLC
CONSTANTS MaxLen, Alphabet
VARIABLE bs

RECURSIVE Strings(_)
Strings(n) == IF n = 0 THEN { << >> }
              ELSE LET S == Strings(n - 1) IN S \cup { Append(s, a) : s \in { x \in S : Len(x) = n - 1 }, a \in Alphabet }

Init == bs \in Strings(MaxLen)
Next == UNCHANGED bs

LawInv == Law_RoundTrip(bs)

\* Unwrap agrees with Decode on single definite TLVs
UnwrapInv == LET u == Unwrap(bs) d == Decode(bs) IN
             u.ok => (~d.ok \/ (Len(d.nodes) = 1 /\ d.nodes[1].t = u.tag))

Emit == LET d == Decode(bs) u == Unwrap(bs) IN
        PrintT(<< "T", bs,
                  IF d.ok THEN << d.nodes, EncForest(d.nodes) >> ELSE d.why,
                  IF u.ok THEN << u.tag, u.value >> ELSE "rej" >>)
=============================================================================
