--------------------------- MODULE MC_Concurrency ---------------------------
(* Instances for C20.                                                                                     *)
(*  part = "shared": all interleavings of the goroutines' programs on one shared object                    *)
(*  part = "enum"  : the same, restricted to the schedules a test harness can force on the real object      *)
(*                   (internal steps - acquire a free lock, write, snapshot, return - run to completion      *)
(*                   before the next controllable step: start a call / let a call perform its next exchange); *)
(*                   every complete behaviour is printed for replay                                           *)
(*  part = "indep" : independent verifications sharing a trust store                                          *)
(*  part = "once"  : the lazily built trust store                                                              *)
EXTENDS Concurrency
CONSTANT Part
VARIABLE hist
allvars == << svars, vvars, ovars, hist >>

\* constants of the instances (cfg files cannot write functions)
Long == [op |-> "long"]
Set(f, v) == [op |-> "set", f |-> f, v |-> v]
ProgShared == [g1 |-> << Long, Set("skipPace", TRUE) >>, g2 |-> << Set("skipImages", TRUE), Long >>, g3 |-> << Set("challenge", 7), Set("maxLe", 100) >>]
ProgEnum   == [g1 |-> << Set("challenge", 1), Long >>, g2 |-> << Set("skipImages", TRUE), Set("challenge", 2), Long >>]
ProgEnum2  == [g1 |-> << Long, Set("skipPace", TRUE) >>, g2 |-> << Long, Set("maxLe", 100), Long >>]
ProgEnum3  == [g1 |-> << Set("challenge", 1), Long >>, g2 |-> << Set("challenge", 2), Long, Set("challenge", 1) >>]
ProgOne    == [g1 |-> << Long >>]
DocOf3 == [v1 |-> "A", v2 |-> "B", v3 |-> "A"]
DocOf1 == [v1 |-> "A"]
SignTimeAB == [A |-> 1, B |-> 2]
ValidAtAB == [A |-> {1}, B |-> {2}]

Lbl(a, g) == << a, g >>
Internal(g) == \/ Acquire(g) /\ hist' = Append(hist, Lbl("acq", g))
               \/ Write(g) /\ hist' = Append(hist, Lbl("write", g))
               \/ Snapshot(g) /\ hist' = Append(hist, Lbl("snap", g))
               \/ Release(g) /\ hist' = Append(hist, Lbl("rel", g))
InternalEnabled(g) == \/ pc[g] = "called" /\ (Locked => holder = "none")
                      \/ pc[g] = "in"
                      \/ pc[g] = "done"
                      \/ pc[g] = "talk" /\ nx[g] = NExch
Controllable(g) == \/ Call(g) /\ hist' = Append(hist, Lbl("call", g))
                   \/ Exchange(g) /\ hist' = Append(hist, Lbl("x", g))
EnumNext == IF \E g \in G : InternalEnabled(g) THEN \E g \in G : Internal(g) ELSE \E g \in G : Controllable(g)

Init == SInit /\ VInit /\ OInit /\ hist = << >>
Next == CASE Part = "shared" -> SNext /\ UNCHANGED << vvars, ovars, hist >>
          [] Part = "enum"   -> EnumNext /\ UNCHANGED << vvars, ovars >>
          [] Part = "indep"  -> VNext /\ UNCHANGED << svars, ovars, hist >>
          [] Part = "once"   -> ONext /\ UNCHANGED << svars, vvars, hist >>

AllDone == \A g \in G : pc[g] = "idle" /\ ip[g] > Len(Programs[g])
\* one line per complete behaviour: the labels, the configuration each long call saw, the order of exchanges
Emit == (Part = "enum" /\ AllDone) => PrintT(<< "B", hist, results, xlog, lin >>)
\* hide nothing: in "enum" every path is a different behaviour
=============================================================================
