------------------------------ MODULE LdsView ------------------------------
(***************************************************************************)
(* The parsed view of an LDS file as a function of its content (C19).        *)
(*                                                                           *)
(* A file is described by its kind and the SHAPE of its content: which       *)
(* optional data objects are present, how often each repeated element         *)
(* occurs (and in which template it sits), and the encoding choices the      *)
(* standard leaves open (order of the tag list / of the stored objects,      *)
(* BCD or character dates, length form).  Values are symbolic: the data      *)
(* object f carries the value id f, the i-th repetition the id <<f, i>>;      *)
(* the harness draws a concrete value per id, encodes the file with its own  *)
(* encoder and compares the view of the real constructors with View below    *)
(* and with an independent decoding of the same bytes.                        *)
(*                                                                           *)
(* View depends on the content only, never on the encoding choices; Summary  *)
(* states the precedence rules; AcceptedAs the outer-tag rule; the state      *)
(* machine at the end states that the view is always the view OF THE RAW      *)
(* BYTES the object holds (construct / caller scribbles on its buffer /       *)
(* caller edits the parsed struct / export / import).                         *)
(***************************************************************************)
EXTENDS Integers, Sequences, FiniteSets

CONSTANT MaxRep            \* highest repetition count explored (>= 2: the second element is where omissions hide)

Kinds == {"DG1", "DG2", "DG7", "DG11", "DG12", "DG13", "DG14", "DG15", "DG16", "COM", "SOD", "CardAccess", "CardSecurity"}
KindDG(k) == CASE k = "DG1" -> 1 [] k = "DG2" -> 2 [] k = "DG7" -> 7 [] k = "DG11" -> 11 [] k = "DG12" -> 12
               [] k = "DG13" -> 13 [] k = "DG14" -> 14 [] k = "DG15" -> 15 [] k = "DG16" -> 16 [] OTHER -> 0
\* a file is accepted as data group n exactly when its outer tag is the one of data group n
AcceptedAs(k, n) == KindDG(k) = n

\* ---- encoding choices that must not show in the view -------------------------------------------
Orders == {"table", "permuted", "taglist-permuted"}
Encodings == [order : Orders, bcd : BOOLEAN, lengthForm : 0..2]
PlainEncoding == [order |-> "table", bcd |-> FALSE, lengthForm |-> 0]

\* ---- DG11 / DG12: tag-list driven templates with one repeated group ------------------------------
Opt11 == {"nameOfHolder", "personalNumber", "fullDateOfBirth", "placeOfBirth", "address", "telephone", "profession",
          "title", "personalSummary", "proofOfCitizenship", "otherValidTDNumbers", "custodyInformation"}
Opt12 == {"issuingAuthority", "dateOfIssue", "endorsementsAndObservations", "taxExitRequirements", "imageFront",
          "imageRear", "dateTimeOfPersonalization", "personalizationSystemSerialNumber"}
Rep(k) == IF k = "DG11" THEN "otherNames" ELSE "otherPersons"
Opt(k) == IF k = "DG11" THEN Opt11 ELSE Opt12

\* the view of a DG11 / DG12 file: exactly the present objects, the repeated names in file order
ViewTagged(k, present, n) == [fields |-> present, list |-> [i \in 1..n |-> << Rep(k), i >>]]

\* ---- DG2: 1..n biometric information templates, each with 1..m images ----------------------------
BitEncodings == {"iso19794", "iso39794"}
\* tpls is a sequence of [enc, n]; the images of the view are ALL images of ALL templates in file order
RECURSIVE Flatten(_, _)
Flatten(tpls, t) == IF t > Len(tpls) THEN << >>
                    ELSE [i \in 1..tpls[t].n |-> << t, i >>] \o Flatten(tpls, t + 1)
ViewDG2(tpls) == [images |-> Flatten(tpls, 1), templates |-> [t \in 1..Len(tpls) |-> [enc |-> tpls[t].enc, n |-> tpls[t].n]]]
NumImages(tpls) == Len(Flatten(tpls, 1))

\* ---- DG7 / DG16: plain repetitions ------------------------------------------------------------------
ViewRepeated(n) == [list |-> [i \in 1..n |-> i]]

\* ---- SecurityInfos (DG14, CardAccess, CardSecurity): dispatch by protocol OID class ------------------
InfoTypes == {"pace", "paceDomain", "chipAuth", "chipAuthPublicKey", "activeAuth", "terminalAuth", "unknown"}
ListOf(t) == CASE t = "pace" -> "paceInfos" [] t = "paceDomain" -> "paceDomainParameterInfos" [] t = "chipAuth" -> "chipAuthenticationInfos"
               [] t = "chipAuthPublicKey" -> "chipAuthenticationPublicKeyInfos" [] t = "activeAuth" -> "activeAuthenticationInfos"
               [] t = "terminalAuth" -> "terminalAuthenticationInfos" [] t = "unknown" -> "unknownInfos"
\* counts : InfoTypes -> 0..MaxRep ; every info lands in the list of ITS type, none is dropped or moved
ViewSecInfos(counts) == [l \in {ListOf(t) : t \in InfoTypes} |-> counts[CHOOSE t \in InfoTypes : ListOf(t) = l]]

\* ---- EF.COM, EF.SOD ----------------------------------------------------------------------------------
\* SOD: LDSSecurityObject v0 has no version info, v1 has it
\* dataGroupHashValues is a SEQUENCE OF: the view lists the hashes in FILE order (ord = "ascending" by data group
\* number as issuers usually write them, or "other"), never re-ordered
ViewSOD(version, nHashes, ord) == [version |-> version, hashes |-> nHashes, versionInfo |-> version = 1, order |-> ord]

\* ---- identity summary: precedence rules -----------------------------------------------------------------
\* dg11 \in {"absent", "neither", "name", "dob", "both"}: which of name-of-holder / full date of birth DG11 carries
Dg11Shapes == {"absent", "neither", "name", "dob", "both"}
\* dg12 \in Dg12Shapes: which document images DG12 carries; the summary shows each one as ITS OWN image
Dg12Shapes == {"absent", "front", "rear", "both"}
SummaryOf(dg11, dg2tpls, dg7n, com, sodVI) ==
  [nameSource   |-> IF dg11 \in {"name", "both"} THEN "dg11" ELSE "mrz",
   dobSource    |-> IF dg11 \in {"dob", "both"} THEN "dg11" ELSE "mrz",
   mrzRawShown  |-> TRUE,                                       \* the MRZ values are always surfaced next to them
   dg11DobRaw   |-> dg11 \in {"dob", "both"},
   faceImages   |-> NumImages(dg2tpls),
   signatures   |-> dg7n,
   versionSource|-> IF sodVI THEN "sod" ELSE IF com THEN "com" ELSE "none"]
SummaryImages(dg12) == [front |-> dg12 \in {"front", "both"}, rear |-> dg12 \in {"rear", "both"}]

\* ---- laws checked on the specification itself -------------------------------------------------------------
\* every repeated element appears exactly once, in order
NoElementDropped(tpls) == /\ Len(ViewDG2(tpls).images) = NumImages(tpls)
                          /\ \A t \in 1..Len(tpls) : \A i \in 1..tpls[t].n : \E j \in 1..NumImages(tpls) : ViewDG2(tpls).images[j] = << t, i >>
                          /\ \A j, k \in 1..NumImages(tpls) : j < k => \/ ViewDG2(tpls).images[j][1] < ViewDG2(tpls).images[k][1]
                                                                       \/ /\ ViewDG2(tpls).images[j][1] = ViewDG2(tpls).images[k][1]
                                                                          /\ ViewDG2(tpls).images[j][2] < ViewDG2(tpls).images[k][2]
\* exactly one data group number accepts a data-group file, none accepts the other kinds
OneAcceptor(k) == Cardinality({n \in 1..16 : AcceptedAs(k, n)}) = IF KindDG(k) > 0 THEN 1 ELSE 0

\* =========================================================================================================
\* The view is the view of the raw bytes the object holds.
\*   objRaw   what the object's RawData holds      (an id of a byte string: "r0" the file, "r1" other bytes)
\*   callerBuf what the caller's input buffer holds
\*   viewOf   which bytes the parsed view shown to callers was computed from; edited = the caller changed a
\*            field of the parsed struct (its own copy to change; what matters is what happens at export)
\*   blob     the raw bytes inside an exported document ("none" before)
\* =========================================================================================================
VARIABLES phase, objRaw, callerBuf, viewOf, edited, blob, hist
lvars == << phase, objRaw, callerBuf, viewOf, edited, blob, hist >>

LInit == /\ phase = "bytes" /\ objRaw = "none" /\ callerBuf = "r0" /\ viewOf = "none" /\ edited = FALSE /\ blob = "none" /\ hist = << >>

\* New<Kind>(buf): parses from a PRIVATE COPY of the caller's bytes
Construct == /\ phase = "bytes"
             /\ phase' = "object" /\ objRaw' = callerBuf /\ viewOf' = callerBuf /\ edited' = FALSE
             /\ hist' = Append(hist, "construct") /\ UNCHANGED << callerBuf, blob >>
\* the caller re-uses its buffer afterwards
Scribble == /\ phase = "object" /\ callerBuf = "r0"
            /\ callerBuf' = "r1" /\ hist' = Append(hist, "scribble") /\ UNCHANGED << phase, objRaw, viewOf, edited, blob >>
\* the caller changes a field of the parsed struct
EditParsed == /\ phase = "object" /\ ~edited
              /\ edited' = TRUE /\ hist' = Append(hist, "edit") /\ UNCHANGED << phase, objRaw, callerBuf, viewOf, blob >>
\* a second construction from equal bytes gives an equal view (determinism): modelled as re-construction from objRaw
Reconstruct == /\ phase = "object" /\ Len(hist) < 4
               /\ viewOf' = objRaw /\ edited' = FALSE /\ hist' = Append(hist, "reconstruct") /\ UNCHANGED << phase, objRaw, callerBuf, blob >>
\* export serialises RawData only
Export == /\ phase = "object"
          /\ phase' = "exported" /\ blob' = objRaw /\ hist' = Append(hist, "export") /\ UNCHANGED << objRaw, callerBuf, viewOf, edited >>
\* import re-parses the raw bytes of the blob
Import == /\ phase = "exported"
          /\ phase' = "imported" /\ objRaw' = blob /\ viewOf' = blob /\ edited' = FALSE
          /\ hist' = Append(hist, "import") /\ UNCHANGED << callerBuf, blob >>
LNext == Construct \/ Scribble \/ EditParsed \/ Reconstruct \/ Export \/ Import

\* what is covered by passive authentication is objRaw; the view shown is the view of exactly those bytes
RawIsTheFile   == objRaw \in {"none", "r0"}
ViewOfRaw      == viewOf = objRaw
ImportRecomputes == phase = "imported" => (viewOf = "r0" /\ ~edited)
=============================================================================
