CONSTANTS
  MaxDepth = 50
  MaxNodes = 10000
INIT Init
NEXT Next
INVARIANT Done
