CONSTANTS
  K = 4
  TwoSigners = FALSE
INIT Init
NEXT Next
VIEW View
INVARIANTS SoundInv CompleteInv BasesGenuine
