-------------------------- MODULE Trace_Concurrency --------------------------
(* Trace validation for C20, part 1: executions of a SHARED reader / verifier recorded while a      *)
(* schedule was forced on it.  One line per observation of the controller:                            *)
(*   {"e":"call","g":g,"i":i}            goroutine g invokes the i-th operation of its program           *)
(*   {"e":"gate","g":g}                  g's long call is blocked inside Transceive / a pool lookup      *)
(*                                       (so it is inside its critical section)                           *)
(*   {"e":"open","g":g}                  the controller lets that exchange happen                         *)
(*   {"e":"ret","g":g,"i":i,"long":b,"cmp":[fields],"seen":{...}}   the operation returned; for a long   *)
(*                                       call: the configuration it used, on the observable fields         *)
(* Lock acquisition, the write of a setter, the snapshot and the release are not observable: they are      *)
(* internal steps of the trace specification, placed by TLC (a trace is accepted when SOME placement        *)
(* explains it).  A long call may have fewer exchanges than NExch (error paths).  Every trace is an          *)
(* initial state of its own (index.ndjson gives its first and last line): accepted traces print ACCEPT.       *)
EXTENDS Concurrency, TLC, Json
CONSTANT ProgName
VARIABLES tr, l, atGate
Long == [op |-> "long"]
Set(f, v) == [op |-> "set", f |-> f, v |-> v]
TProg == CASE ProgName = "enum"  -> [g1 |-> << Set("challenge", 1), Long >>, g2 |-> << Set("skipImages", TRUE), Set("challenge", 2), Long >>]
           [] ProgName = "enum2" -> [g1 |-> << Long, Set("skipPace", TRUE) >>, g2 |-> << Long, Set("maxLe", 100), Long >>]
           [] ProgName = "enum3" -> [g1 |-> << Set("challenge", 1), Long >>, g2 |-> << Set("challenge", 2), Long, Set("challenge", 1) >>]
DocOf1 == [v1 |-> "A"]
SignTimeAB == [A |-> 1, B |-> 2]
ValidAtAB == [A |-> {1}, B |-> {2}]

Trace == ndJsonDeserialize("trace.ndjson")
Index == ndJsonDeserialize("index.ndjson")
Ev == Trace[l]
More == l <= Index[tr].to
tvars == << tr, l, atGate >>

TInit == /\ tr \in 1..Len(Index) /\ l = Index[tr].from /\ atGate = [g \in G |-> FALSE]
         /\ SInit /\ VInit /\ OInit

\* ---- internal (unobservable) steps ----
TRelease(g) == /\ \/ pc[g] = "done"
                  \/ pc[g] = "talk" /\ ~atGate[g]
               /\ holder' = IF holder = g THEN "none" ELSE holder
               /\ results' = IF Op(g).op = "long" THEN Append(results, [g |-> g, i |-> ip[g], seen |-> seen[g]]) ELSE results
               /\ pc' = [pc EXCEPT ![g] = "idle"] /\ ip' = [ip EXCEPT ![g] = @ + 1]
               /\ UNCHANGED << cfg, seen, nx, xlog, lin, cb >>
TInternal == /\ \E g \in G : Acquire(g) \/ Write(g) \/ Snapshot(g) \/ TRelease(g)
             /\ UNCHANGED << tvars, vvars, ovars >>

\* ---- observed steps ----
TCall == /\ More /\ Ev.e = "call" /\ ip[Ev.g] = Ev.i /\ Call(Ev.g)
         /\ l' = l + 1 /\ UNCHANGED << tr, atGate, vvars, ovars >>
TGate == /\ More /\ Ev.e = "gate" /\ pc[Ev.g] = "talk" /\ ~atGate[Ev.g]
         /\ atGate' = [atGate EXCEPT ![Ev.g] = TRUE] /\ l' = l + 1 /\ UNCHANGED << tr, svars, vvars, ovars >>
TOpen == /\ More /\ Ev.e = "open" /\ atGate[Ev.g] /\ pc[Ev.g] = "talk"
         /\ atGate' = [atGate EXCEPT ![Ev.g] = FALSE]
         /\ nx' = [nx EXCEPT ![Ev.g] = @ + 1] /\ xlog' = Append(xlog, << Ev.g, ip[Ev.g] >>)
         /\ l' = l + 1 /\ UNCHANGED << tr, cfg, holder, pc, ip, seen, results, lin, cb, vvars, ovars >>
SeenMatches(g, e) == \A f \in {x \in Fields : \E k \in 1..Len(e.cmp) : e.cmp[k] = x} : seen[g][f] = e.seen[f]
TRet == /\ More /\ Ev.e = "ret" /\ pc[Ev.g] = "idle" /\ ip[Ev.g] = Ev.i + 1
        /\ (Ev.long => SeenMatches(Ev.g, Ev))
        /\ l' = l + 1 /\ UNCHANGED << tr, atGate, svars, vvars, ovars >>

TNext == TInternal \/ TCall \/ TGate \/ TOpen \/ TRet
\* at most one critical section at a time, exchanges of one call consecutive, configuration as in lock order
TInv == Mutex /\ NoInterleaving /\ Linearizable
Accepted == (l = Index[tr].to + 1 /\ \A g \in G : pc[g] = "idle") => PrintT(<< "ACCEPT", tr >>)
=============================================================================
