\* the design accepting the two challenges in either slot must let the reflected cryptogram through
CONSTANTS
  Mrzs = {"m1", "m2"}
  OtherMrz = "m2"
  PositionBound = FALSE
INIT Init
NEXT Next
INVARIANTS Soundness
