--------------------------------- MODULE Bac ---------------------------------
(***************************************************************************)
(* Doc 9303-11 section 4.3: Basic Access Control (C05).                     *)
(*                                                                         *)
(* Symbolic cryptography.  K(m) stands for the pair (K_enc, K_mac) derived   *)
(* from MRZ information m.  A cryptogram is a record                         *)
(*   [len, key, a, b, k]   40 octets = E_{K_enc}(a || b || k) || MAC_{K_mac}  *)
(* The terminal is personalised (by the user) with TermMrz, the chip with     *)
(* ChipMrz.  The adversary holds the keys of another document (OtherMrz),     *)
(* has recorded an earlier genuine run of the same chip, and controls the     *)
(* link.  `source' says where the answer to EXTERNAL AUTHENTICATE comes from. *)
(***************************************************************************)
EXTENDS Integers

CONSTANTS Mrzs, OtherMrz,
          PositionBound   \* TRUE (as built): RND.IC is compared with the first, RND.IFD with the second slot of the answer;
                          \* FALSE: "both challenges are echoed, in either order"

Sources == {"chip",        \* whatever the chip answers (a cryptogram, or 6300 if it rejects the terminal)
            "replay",      \* the chip's genuine answer from an earlier run (other randoms)
            "forged",      \* built by the adversary under the keys of OtherMrz, echoing RND.IC (seen on the link)
            "mutated",     \* a genuine answer with some bit changed
            "wrongifd",    \* right keys, RND.IFD not echoed   (a defective / dishonest key holder)
            "wrongic",     \* right keys, RND.IC not echoed
            "reflect",     \* the terminal's OWN cryptogram sent straight back (no key needed): a valid MAC under the
                           \* terminal's keys over RND.IFD || RND.IC || K.IFD - both challenges, in the command's order
            "short", "long",   \* 39 / 41 octets
            "status"}      \* an error status instead of data

VARIABLES termMrz, chipMrz, source, phase, termResult, termKeys, chipKeys, termSsc, chipSsc, chipAccepted

vars == << termMrz, chipMrz, source, phase, termResult, termKeys, chipKeys, termSsc, chipSsc, chipAccepted >>

K(m) == [mrz |-> m]
Cryptogram(len, key, a, b, k) == [len |-> len, key |-> key, a |-> a, b |-> b, k |-> k]
NoMsg == [len |-> 0, key |-> K("none"), a |-> "none", b |-> "none", k |-> "none"]

\* this run's randoms and those of the recorded earlier run
RndIc == "ric" RndIfd == "rifd" KIfd == "kifd" KIc == "kic"
OldRndIc == "ric0" OldRndIfd == "rifd0" OldKIc == "kic0"

Seed(kifd, kic) == [x |-> kifd, y |-> kic]             \* K.IFD xor K.IC
Ssc(ric, rifd) == [lo4ic |-> ric, lo4ifd |-> rifd]      \* RND.IC[4..7] || RND.IFD[4..7]

Init == /\ termMrz \in Mrzs /\ chipMrz \in Mrzs /\ source \in Sources
        /\ phase = "start" /\ termResult = "none"
        /\ termKeys = "none" /\ chipKeys = "none" /\ termSsc = "none" /\ chipSsc = "none" /\ chipAccepted = FALSE

\* GET CHALLENGE, then the terminal sends E(RND.IFD || RND.IC || K.IFD) under K(termMrz); the chip
\* verifies MAC and the echo of its RND.IC under K(chipMrz)
ChipVerifies == termMrz = chipMrz

\* what arrives at the terminal as the answer to EXTERNAL AUTHENTICATE
Answer ==
  CASE source = "chip"     -> IF ChipVerifies THEN Cryptogram(40, K(chipMrz), RndIc, RndIfd, KIc) ELSE NoMsg
    [] source = "replay"   -> Cryptogram(40, K(chipMrz), OldRndIc, OldRndIfd, OldKIc)
    [] source = "forged"   -> Cryptogram(40, K(OtherMrz), RndIc, "guess", "kadv")
    [] source = "mutated"  -> Cryptogram(40, K("junk"), RndIc, RndIfd, KIc)
    [] source = "wrongifd" -> Cryptogram(40, K(chipMrz), RndIc, "other", KIc)
    [] source = "wrongic"  -> Cryptogram(40, K(chipMrz), "other", RndIfd, KIc)
    [] source = "reflect"  -> Cryptogram(40, K(termMrz), RndIfd, RndIc, KIfd)
    [] source = "short"    -> Cryptogram(39, K(chipMrz), RndIc, RndIfd, KIc)
    [] source = "long"     -> Cryptogram(41, K(chipMrz), RndIc, RndIfd, KIc)
    [] source = "status"   -> NoMsg

\* the terminal's checks (bac.processResponse): length, MAC under its own keys, both echoes
TermAccepts(msg) == /\ msg.len = 40
                    /\ msg.key = K(termMrz)
                    /\ IF PositionBound THEN msg.b = RndIfd /\ msg.a = RndIc
                       ELSE {msg.a, msg.b} = {RndIc, RndIfd}

Run == /\ phase = "start" /\ phase' = "done"
       /\ chipAccepted' = ChipVerifies
       /\ chipKeys' = IF ChipVerifies THEN Seed(KIfd, KIc) ELSE "none"
       /\ chipSsc' = IF ChipVerifies THEN Ssc(RndIc, RndIfd) ELSE "none"
       /\ LET msg == Answer IN
          IF TermAccepts(msg)
          THEN /\ termResult' = "success" /\ termKeys' = Seed(KIfd, msg.k) /\ termSsc' = Ssc(RndIc, RndIfd)
          ELSE /\ termResult' = "failure" /\ termKeys' = "none" /\ termSsc' = "none"
       /\ UNCHANGED << termMrz, chipMrz, source >>

Next == Run \/ (phase = "done" /\ UNCHANGED vars)

\* ---- properties ----------------------------------------------------------------------------
Done == phase = "done"
\* conforming chip, same MRZ, nobody interferes: success, same keys, same counter
Completeness == (Done /\ termMrz = chipMrz /\ source = "chip") =>
                   (termResult = "success" /\ chipAccepted /\ termKeys = chipKeys /\ termSsc = chipSsc)
\* success only with the genuine answer of this run from the holder of the MRZ keys
Soundness == (Done /\ termResult = "success") =>
                (source = "chip" /\ termMrz = chipMrz /\ chipAccepted /\ termKeys = chipKeys /\ termSsc = chipSsc)
\* failure installs no session
FailClosed == (Done /\ termResult = "failure") => (termKeys = "none" /\ termSsc = "none")
=============================================================================
