------------------------------ MODULE MC_SMCmd ------------------------------
EXTENDS SMCmd, TLC
VARIABLES odd, nc, ne, bs
NcSet == {0, 1, 7, 8, 9, 15, 16, 17, 100, 215, 216, 223, 224, 225, 231, 232, 233, 239, 240, 241, 247, 248, 254, 255, 256, 257, 1000,
          32767, 32768, 65000, 65503, 65504, 65505, 65511, 65512, 65513, 65535}
NeSet == {0, 1, 255, 256, 257, 65535, 65536}
Init == odd \in BOOLEAN /\ nc \in NcSet /\ ne \in NeSet /\ bs \in {8, 16}
Next == UNCHANGED << odd, nc, ne, bs >>
\* the outer APDU parses back to the protected lengths
OuterRoundTrip == LET p == Protect(odd, nc, ne, bs) IN p.fits => Parse([lc |-> p.lc, n |-> p.nc, le |-> p.le]) = << p.nc, p.ne >>
Emit == PrintT(<< "T", odd, nc, ne, bs, Protect(odd, nc, ne, bs) >>)
=============================================================================
