------------------------------ MODULE MC_Verdict ------------------------------
(* C02, product half: all outcome vectors (4*2*3*3*3*2 = 432); the as-built functions satisfy the  *)
(* property's gates; Emit prints each vector with the as-built values for replay into the real      *)
(* document.Session / DocumentEx.Summary().                                                         *)
EXTENDS Verdict, TLC
VARIABLE s
Init == s \in Vectors
Next == UNCHANGED s
GateTrust == TrustGated(s, AsBuiltDataTrusted(s))
GateAuth  == AuthGated(s, AsBuiltVerified(s))
GateProto == ProtoGated(s, AsBuiltProtocolStatus(s))
\* not vacuous: some vector is trusted with each mechanism named
Emit == PrintT(<< "T", s, AsBuiltDataTrusted(s), AsBuiltProtocolStatus(s), AsBuiltVerified(s) >>)
=============================================================================
