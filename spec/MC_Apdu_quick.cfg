CONSTANT Full = FALSE
INIT Init
NEXT Next
INVARIANTS RoundTripInv MinimalInv ParserNeverReadsData Emit
