------------------------------- MODULE Hostile -------------------------------
(***************************************************************************)
(* Untrusted bytes (C12): the grammar of hostile inputs and the entry points  *)
(* they are fed to.  A TLA+ specification cannot observe a Go panic, CPU time  *)
(* or allocation; what it contributes is the SYSTEMATIC space of hostile        *)
(* structures - a mutation plan is (base input kind, operator, target class,    *)
(* magnitude) - its applicability rules, and the totality contract of every     *)
(* entry point: the outcome of a call is "value" or "error", never "panic",      *)
(* "timeout" or "oversized allocation".  TLC enumerates the plans; the harness     *)
(* applies each to generated genuine inputs and calls the real entry points.       *)
(***************************************************************************)
EXTENDS Integers, FiniteSets, Sequences

\* ---- what the bytes are before they are damaged --------------------------------------------------
LdsKinds == {"DG1", "DG2", "DG7", "DG11", "DG12", "DG13", "DG14", "DG15", "DG16", "COM", "SOD", "CardAccess", "CardSecurity"}
Bases == LdsKinds \cup {"MasterList", "Certificates", "Document-CBOR", "VerifiableDoc-CBOR", "RAPDU", "SM-RAPDU", "MRZ", "ChipResponses"}
Encoding(b) == CASE b \in LdsKinds \cup {"MasterList", "Certificates", "SM-RAPDU"} -> "ber"
                 [] b \in {"Document-CBOR", "VerifiableDoc-CBOR"} -> "cbor"
                 [] b = "MRZ" -> "text"
                 [] OTHER -> "bytes"

\* ---- public entry points that consume such bytes ---------------------------------------------------
EntryPoints(b) ==
  CASE b \in LdsKinds \ {"SOD", "CardSecurity", "CardAccess"} -> {"tlv.Decode", "tlv.DecodeEncode", "tlv.Unwrap", "document.New" \o b, "Document.NewDG"}
    [] b = "CardAccess" -> {"tlv.Decode", "document.NewCardAccess"}
    [] b \in {"SOD", "CardSecurity"} -> {"tlv.Decode", "tlv.DecodeEncode", "document.New" \o b, "cms.ParseSignedData+Verify", "passiveauth.PassiveAuth"}
    [] b = "MasterList" -> {"cms.ParseSignedData+Verify", "cms.CreateCertPoolFromSignedData"}
    [] b = "Certificates" -> {"cms.ParseCertificates", "GenericCertPool.Add"}
    [] b = "Document-CBOR" -> {"document.NewDocumentFromCbor"}
    [] b = "VerifiableDoc-CBOR" -> {"document.UnmarshalVerifiableDoc", "verifier.Verify", "mobile.Verifier.Verify"}
    [] b = "RAPDU" -> {"iso7816.ParseRApdu"}
    [] b = "SM-RAPDU" -> {"SecureMessaging.Decode"}
    [] b = "MRZ" -> {"mrz.MrzDecode", "password.NewPasswordMrz"}
    [] b = "ChipResponses" -> {"reader.ReadDocument"}

\* ---- operators ---------------------------------------------------------------------------------------
\* on any byte string
ByteOps == {"truncate", "extend", "bitflip", "zero-fill", "ff-fill", "random-bytes", "empty"}
\* on a BER node chosen by a target class
BerOps == {"len-short", "len-long", "len-4GiB", "len-2GiB", "len-indefinite", "len-nonminimal", "len-5octets",
           "tag-zero", "tag-long", "tag-other-class", "nest-deep", "children-many", "drop-node", "dup-node", "swap-siblings",
           "empty-value", "value-huge", "oid-malformed", "int-negative", "int-huge", "string-type-swap", "bitstring-unused-9"}
BerTargets == {"root", "first-child", "last-child", "deepest", "every-constructed", "every-oid", "every-integer", "every-octet-string", "random-node"}
\* on the fixed-layout binary records inside a BER value (ISO/IEC 19794-5 face record in DG2): counts and lengths that lie
RecordOps == {"rec-record-length", "rec-block-length", "rec-face-count", "rec-feature-count", "rec-image-dimensions"}
\* on a CBOR item
CborOps == {"head-len-4GiB", "head-len-2^63", "map-key-renamed", "map-key-dropped", "value-type-swapped", "nest-arrays-deep", "indefinite-unterminated",
            "bytes-instead-of-map", "tag-wrapped", "float-instead-of-int", "duplicate-key"}
CborTargets == {"outer-envelope", "inner-envelope", "payload-map", "file-entry", "evidence-field", "random-item"}
\* on an evidence bundle (fields of the three evidence records): structural absence and size
EvidenceOps == {"field-absent", "field-empty", "field-oversized", "record-absent", "document-file-absent", "counter-oversized", "oid-empty"}
\* on the SecurityInfos a document carries next to its evidence (DG14): arrangements of infos, keys and key identifiers
\* that are well-formed files but do not fit together
ArrangementOps == {"ca-info-keyid/key-without-keyid", "ca-info-without-keyid/key-with-keyid", "ca-info-keyid/other-key-keyid", "ca-info-without-key",
                   "key-without-info", "two-keys-without-info", "dh-key", "pace-info-without-parameter-id", "no-infos"}
\* on the answers of a chip during a read
ResponseOps == {"all-empty", "all-garbage", "all-9000-no-data", "huge-responses", "tlv-bombs", "never-ending-file", "status-only-errors"}
TextOps == {"truncate", "extend", "non-ascii", "lowercase", "control-chars", "all-fillers", "empty"}

Applicable(b, op, tg) ==
  \/ op \in ByteOps /\ tg = "bytes" /\ Encoding(b) \in {"ber", "cbor", "bytes"} /\ b # "ChipResponses"
  \/ op \in BerOps /\ tg \in BerTargets /\ Encoding(b) = "ber"
     /\ (op \in {"oid-malformed"} => tg \in {"every-oid", "random-node"})
     /\ (op \in {"int-negative", "int-huge"} => tg \in {"every-integer", "random-node"})
     /\ (op \in {"nest-deep", "children-many"} => tg \in {"root", "deepest", "every-constructed", "random-node"})
  \/ op \in RecordOps /\ tg = "biometric-record" /\ b = "DG2"
  \/ op \in CborOps /\ tg \in CborTargets /\ Encoding(b) = "cbor"
  \/ op \in EvidenceOps /\ tg = "evidence" /\ b = "VerifiableDoc-CBOR"
  \/ op \in ArrangementOps /\ tg = "evidence" /\ b = "VerifiableDoc-CBOR"
  \/ op \in ResponseOps /\ tg = "session" /\ b = "ChipResponses"
  \/ op \in TextOps /\ tg = "text" /\ b = "MRZ"

AllOps == ByteOps \cup BerOps \cup RecordOps \cup CborOps \cup EvidenceOps \cup ArrangementOps \cup ResponseOps \cup TextOps
AllTargets == BerTargets \cup CborTargets \cup {"bytes", "evidence", "session", "text", "biometric-record"}
Plans == {p \in [base : Bases, op : AllOps, target : AllTargets] : Applicable(p.base, p.op, p.target)}

\* ---- the contract ------------------------------------------------------------------------------------------
Outcomes == {"value", "error", "panic", "timeout", "oversized-allocation"}
Total(outcome) == outcome \in {"value", "error"}
\* resource bounds as functions of the input length n (octets): generous constants, polynomial of degree 2 at most
TimeBoundMs(n) == 2000 + (n * n) \div 1000000
AllocBound(n) == 64 * 1024 * 1024 + 4096 * n

\* sanity of the grammar: every base has an entry point and a plan; every operator is used somewhere
GrammarOK == /\ \A b \in Bases : EntryPoints(b) # {} /\ \E p \in Plans : p.base = b
             /\ \A op \in AllOps : \E p \in Plans : p.op = op
=============================================================================
