INIT Init
NEXT Next
INVARIANTS GateTrust GateAuth GateProto Emit
