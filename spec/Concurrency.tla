---------------------------- MODULE Concurrency ----------------------------
(***************************************************************************)
(* Shared readers, verifiers and trust stores under concurrency (C20).       *)
(*                                                                           *)
(* Part 1 - one SHARED object (reader.Reader / mobile.Reader / Verifier)      *)
(* used by several goroutines.  The object has a configuration cfg, one        *)
(* mutex, setter calls (lock; write one field; unlock) and the long call       *)
(* (ReadDocument / Verify: lock; read cfg; talk to the chip / the trust store;  *)
(* unlock).  Every critical section is split into its steps so that TLC         *)
(* explores every interleaving:                                                 *)
(*     Call(g, op)      g invokes the method (it now competes for the lock)      *)
(*     Acquire(g)       g gets the mutex                                          *)
(*     Write(g)         setter: the field is written                              *)
(*     Snapshot(g)      long call: the configuration is read                      *)
(*     Exchange(g)      long call: one exchange with the chip / trust store       *)
(*     Release(g)       unlock and return                                         *)
(* WholeCall = FALSE is the design in which the long call takes a snapshot       *)
(* under the lock and RELEASES it before talking to the chip (a tempting          *)
(* "do not block the UI thread" refactoring): TLC must find the interleaved        *)
(* exchanges.  Locked = FALSE is the design without the mutex.                     *)
(* NotifyInside = FALSE reports "finished" to the host AFTER unlocking ("let the     *)
(* host reconfigure the reader from its completion handler"): TLC must find the      *)
(* next call's first callback delivered before it.                                   *)
(*                                                                           *)
(* Part 2 - INDEPENDENT verifications sharing one trust store: each call has    *)
(* its own verification context (reference time = the signing time of ITS        *)
(* document).  PerCallContext = FALSE shares one context: TLC must find a          *)
(* verification judged at the other document's signing time.                       *)
(*                                                                           *)
(* Part 3 - the lazily built process-wide trust store (sync.Once).               *)
(***************************************************************************)
EXTENDS Integers, Sequences, FiniteSets, TLC

CONSTANTS G,            \* goroutines
          Programs,     \* G -> sequence of operations; an operation is [op |-> "set", f |-> field, v |-> value] or [op |-> "long"]
          NExch,        \* exchanges per long call
          WholeCall, Locked,
          NotifyInside  \* TRUE (as built): the last status callback of a long call is delivered before the lock is released

Fields == {"skipPace", "skipImages", "challenge", "maxLe"}
Cfg0 == [skipPace |-> FALSE, skipImages |-> FALSE, challenge |-> 0, maxLe |-> 0]

VARIABLES cfg,          \* the object's configuration
          holder,       \* who holds the mutex ("none")
          pc,           \* pc[g] \in {"idle", "called", "in", "snap", "talk", "done"}
          ip,           \* ip[g]: index of the next operation of g's program
          seen,         \* seen[g]: configuration read by g's current long call
          nx,           \* nx[g]: exchanges done by g's current long call
          xlog,         \* the exchanges as the chip / trust store saw them: sequence of call ids <<g, index>>
          results,      \* sequence of [g, op, cfgAtLinearization, seen]: one per completed long call
          lin,          \* linearization order: sequence of <<g, index>> in order of Acquire
          cb            \* the status callbacks the host's handler receives, in order: << g, index, "start" | "finished" >>
svars == << cfg, holder, pc, ip, seen, nx, xlog, results, lin, cb >>

Op(g) == Programs[g][ip[g]]

SInit == /\ cfg = Cfg0 /\ holder = "none"
         /\ pc = [g \in G |-> "idle"] /\ ip = [g \in G |-> 1]
         /\ seen = [g \in G |-> Cfg0] /\ nx = [g \in G |-> 0]
         /\ xlog = << >> /\ results = << >> /\ lin = << >> /\ cb = << >>

Call(g) == /\ pc[g] = "idle" /\ ip[g] <= Len(Programs[g])
           /\ pc' = [pc EXCEPT ![g] = "called"]
           /\ UNCHANGED << cfg, holder, ip, seen, nx, xlog, results, lin, cb >>

Acquire(g) == /\ pc[g] = "called"
              /\ (Locked => holder = "none")
              /\ holder' = IF Locked THEN g ELSE holder
              /\ pc' = [pc EXCEPT ![g] = "in"]
              /\ lin' = Append(lin, << g, ip[g] >>)
              /\ UNCHANGED << cfg, ip, seen, nx, xlog, results, cb >>

Write(g) == /\ pc[g] = "in" /\ Op(g).op = "set"
            /\ cfg' = [cfg EXCEPT ![Op(g).f] = Op(g).v]
            /\ pc' = [pc EXCEPT ![g] = "done"]
            /\ UNCHANGED << holder, ip, seen, nx, xlog, results, lin, cb >>

Snapshot(g) == /\ pc[g] = "in" /\ Op(g).op = "long"
               /\ seen' = [seen EXCEPT ![g] = cfg]
               /\ nx' = [nx EXCEPT ![g] = 0]
               \* the design that does not hold the lock for the whole call lets go of it here
               /\ holder' = IF WholeCall THEN holder ELSE "none"
               /\ pc' = [pc EXCEPT ![g] = "talk"]
               /\ cb' = Append(cb, << g, ip[g], "start" >>)          \* the first status callback of the call
               /\ UNCHANGED << cfg, ip, xlog, results, lin >>

\* one exchange with the chip / one lookup in the trust store
Exchange(g) == /\ pc[g] = "talk" /\ nx[g] < NExch
               /\ nx' = [nx EXCEPT ![g] = @ + 1]
               /\ xlog' = Append(xlog, << g, ip[g] >>)
               /\ UNCHANGED << cfg, holder, pc, ip, seen, results, lin, cb >>

Release(g) == /\ \/ pc[g] = "done"
                 \/ pc[g] = "talk" /\ nx[g] = NExch
              /\ holder' = IF holder = g THEN "none" ELSE holder
              /\ results' = IF Op(g).op = "long" THEN Append(results, [g |-> g, i |-> ip[g], seen |-> seen[g]]) ELSE results
              /\ IF Op(g).op = "long" /\ ~NotifyInside
                 THEN \* the design that reports "finished" after unlocking: the callback is a step of its own
                      /\ pc' = [pc EXCEPT ![g] = "post"] /\ UNCHANGED << ip, cb >>
                 ELSE /\ pc' = [pc EXCEPT ![g] = "idle"]
                      /\ ip' = [ip EXCEPT ![g] = @ + 1]
                      /\ cb' = IF Op(g).op = "long" THEN Append(cb, << g, ip[g], "finished" >>) ELSE cb
              /\ UNCHANGED << cfg, seen, nx, xlog, lin >>

Finish(g) == /\ pc[g] = "post"
             /\ cb' = Append(cb, << g, ip[g], "finished" >>)
             /\ pc' = [pc EXCEPT ![g] = "idle"]
             /\ ip' = [ip EXCEPT ![g] = @ + 1]
             /\ UNCHANGED << cfg, holder, seen, nx, xlog, results, lin >>

SNext == \E g \in G : Call(g) \/ Acquire(g) \/ Write(g) \/ Snapshot(g) \/ Exchange(g) \/ Release(g) \/ Finish(g)

\* ---- properties of part 1 --------------------------------------------------------------------------
\* at most one goroutine inside a critical section
Mutex == Cardinality({g \in G : pc[g] \in {"in", "snap", "done"} \/ (pc[g] = "talk" /\ WholeCall)}) <= 1
\* the chip never sees the exchanges of two calls interleaved: the exchanges of one call are consecutive
NoInterleaving == \A i, j, k \in 1..Len(xlog) : (i < j /\ j < k /\ xlog[i] = xlog[k]) => xlog[j] = xlog[i]
\* the host's status handler never sees the callbacks of two calls interleaved: those of one call are consecutive
CallbacksSerial == \A i, j, k \in 1..Len(cb) : (i < j /\ j < k /\ cb[i][1] = cb[k][1] /\ cb[i][2] = cb[k][2]) => (cb[j][1] = cb[i][1] /\ cb[j][2] = cb[i][2])
\* a sequential execution of the calls in linearization order: the configuration after the first k operations
RECURSIVE CfgAfter(_)
CfgAfter(k) == IF k = 0 THEN Cfg0
               ELSE LET e == lin[k] o == Programs[e[1]][e[2]] c == CfgAfter(k - 1) IN
                    IF o.op = "set" THEN [c EXCEPT ![o.f] = o.v] ELSE c
PosInLin(g, i) == CHOOSE k \in 1..Len(lin) : lin[k] = << g, i >>
\* every completed long call saw exactly the configuration a sequential execution in lock order gives it
\* (no half-applied setter, no setter of a later call)
Linearizable == \A r \in 1..Len(results) : results[r].seen = CfgAfter(PosInLin(results[r].g, results[r].i) - 1)
\* the linearization order respects real time: an operation that returned before another was called comes first
\* (holds by construction of lin as the order of Acquire; stated for the trace specification)

\* =========================================================================================================
\* Part 2: independent verifications, one trust store.  A verification of document d:
\*    SetRef(v)   reference time := signing time of ITS document      (cms.SignerInfo)
\*    Lookup(v)   candidate anchors by key identifier from the shared pool (read-only, returns copies)
\*    Judge(v)    validity of chain certificates at the reference time
\* =========================================================================================================
CONSTANTS V,             \* verification calls
          DocOf,         \* V -> document
          SignTime,      \* document -> its signing time
          ValidAt,       \* document -> set of times at which its chain is valid
          PerCallContext
VARIABLES vpc,           \* vpc[v] \in {"new", "ref", "looked", "judged"}
          ref,           \* ref[v]: per-call reference time
          sharedRef,     \* the reference time of a context shared between calls (PerCallContext = FALSE)
          verdict        \* verdict[v] \in {"none", "ok", "rejected"}
vvars == << vpc, ref, sharedRef, verdict >>

VInit == /\ vpc = [v \in V |-> "new"] /\ ref = [v \in V |-> 0] /\ sharedRef = 0 /\ verdict = [v \in V |-> "none"]
SetRef(v) == /\ vpc[v] = "new"
             /\ IF PerCallContext THEN ref' = [ref EXCEPT ![v] = SignTime[DocOf[v]]] /\ UNCHANGED sharedRef
                ELSE sharedRef' = SignTime[DocOf[v]] /\ UNCHANGED ref
             /\ vpc' = [vpc EXCEPT ![v] = "ref"] /\ UNCHANGED verdict
Lookup(v) == /\ vpc[v] = "ref" /\ vpc' = [vpc EXCEPT ![v] = "looked"] /\ UNCHANGED << ref, sharedRef, verdict >>
Judge(v) == /\ vpc[v] = "looked"
            /\ LET t == IF PerCallContext THEN ref[v] ELSE sharedRef IN
               verdict' = [verdict EXCEPT ![v] = IF t \in ValidAt[DocOf[v]] THEN "ok" ELSE "rejected"]
            /\ vpc' = [vpc EXCEPT ![v] = "judged"] /\ UNCHANGED << ref, sharedRef >>
VNext == \E v \in V : SetRef(v) \/ Lookup(v) \/ Judge(v)
\* each call returns the result a lone call would have returned
LoneResult(v) == IF SignTime[DocOf[v]] \in ValidAt[DocOf[v]] THEN "ok" ELSE "rejected"
AsIfAlone == \A v \in V : verdict[v] # "none" => verdict[v] = LoneResult(v)

\* =========================================================================================================
\* Part 3: the lazily built trust store (sync.Once): callers either run the initialiser or wait for it
\* =========================================================================================================
CONSTANT C                \* callers of PreloadCscaCertPool / getCscaCertPool
VARIABLES opc,            \* opc[c] \in {"start", "initialising", "waiting", "got"}
          once,           \* "new" | "running" | "done"
          inits,          \* number of times the initialiser ran
          poolReady,      \* the pool variable has been assigned
          sawReady        \* sawReady[c]: what c observed when it got the pool
ovars == << opc, once, inits, poolReady, sawReady >>
OInit == /\ opc = [c \in C |-> "start"] /\ once = "new" /\ inits = 0 /\ poolReady = FALSE /\ sawReady = [c \in C |-> TRUE]
Enter(c) == /\ opc[c] = "start"
            /\ IF once = "new" THEN once' = "running" /\ inits' = inits + 1 /\ opc' = [opc EXCEPT ![c] = "initialising"]
               ELSE IF once = "running" THEN opc' = [opc EXCEPT ![c] = "waiting"] /\ UNCHANGED << once, inits >>
               ELSE opc' = [opc EXCEPT ![c] = "got"] /\ UNCHANGED << once, inits >>
            /\ sawReady' = IF once = "done" THEN [sawReady EXCEPT ![c] = poolReady] ELSE sawReady
            /\ UNCHANGED poolReady
FinishInit(c) == /\ opc[c] = "initialising"
                 /\ poolReady' = TRUE /\ once' = "done" /\ opc' = [opc EXCEPT ![c] = "got"]
                 /\ sawReady' = [sawReady EXCEPT ![c] = TRUE] /\ UNCHANGED inits
Wake(c) == /\ opc[c] = "waiting" /\ once = "done"
           /\ opc' = [opc EXCEPT ![c] = "got"] /\ sawReady' = [sawReady EXCEPT ![c] = poolReady]
           /\ UNCHANGED << once, inits, poolReady >>
ONext == \E c \in C : Enter(c) \/ FinishInit(c) \/ Wake(c)
InitOnce == inits <= 1
AllSeeThePool == \A c \in C : opc[c] = "got" => sawReady[c]
=============================================================================
