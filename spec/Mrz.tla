-------------------------------- MODULE Mrz --------------------------------
(***************************************************************************)
(* ICAO Doc 9303 part 3 (check digits 4.9), parts 4/5/6 (TD3 / TD1 / TD2   *)
(* data structures) and part 11 4.3.2 / 9.7.3 (MRZ information used as the  *)
(* access-control key seed).                                                *)
(*                                                                         *)
(* Characters are integers: 0..9 digits, 10..35 letters A..Z, 36 filler '<', *)
(* 37 a space in decoded values.  An MRZ is a sequence of 90 (TD1), 72 (TD2)  *)
(* or 88 (TD3) characters, lines concatenated.                               *)
(***************************************************************************)
EXTENDS Integers, Sequences

F  == 36          \* '<'
SP == 37          \* ' ' in decoded values
Digit(c)  == c \in 0..9
Letter(c) == c \in 10..35
Alpha(c)  == c \in 0..36

Val(c) == IF c = F THEN 0 ELSE c
Weight(i) == << 7, 3, 1 >>[((i - 1) % 3) + 1]

RECURSIVE WSum(_, _)
WSum(s, n) == IF n = 0 THEN 0 ELSE WSum(s, n - 1) + Val(s[n]) * Weight(n)
CD(s) == WSum(s, Len(s)) % 10

AllFill(s) == \A i \in 1..Len(s) : s[i] = F

\* ICAO: the check digit is the digit CD(data)
CdOK(data, cd) == Digit(cd) /\ cd = CD(data)
\* a non-empty checked field disagrees with its check digit
Disagrees(data, cd) == ~AllFill(data) /\ ~CdOK(data, cd)

RECURSIVE TrimR(_)
TrimR(s) == IF s = << >> THEN s ELSE IF s[Len(s)] = F THEN TrimR(SubSeq(s, 1, Len(s) - 1)) ELSE s
\* decoded value: fillers become spaces, trailing fillers removed
Dec(s) == LET t == TrimR(s) IN [i \in 1..Len(t) |-> IF t[i] = F THEN SP ELSE t[i]]

\* 1-based index of the first filler in s, 0 if none
RECURSIVE FirstFill(_, _)
FirstFill(s, i) == IF i > Len(s) THEN 0 ELSE IF s[i] = F THEN i ELSE FirstFill(s, i + 1)

Sub(m, a, b) == SubSeq(m, a, b)     \* 1-based inclusive

Layout(m) == IF Len(m) = 90 THEN "TD1" ELSE IF Len(m) = 72 THEN "TD2" ELSE IF Len(m) = 88 THEN "TD3" ELSE "none"

\* ---- raw fields per layout (positions from Doc 9303 parts 5, 6, 4) --------------------------
Raw(m) ==
  CASE Layout(m) = "TD1" ->
         [code |-> Sub(m,1,2), state |-> Sub(m,3,5), num |-> Sub(m,6,14), numcd |-> m[15], opt |-> Sub(m,16,30),
          dob |-> Sub(m,31,36), dobcd |-> m[37], sex |-> Sub(m,38,38), exp |-> Sub(m,39,44), expcd |-> m[45],
          nat |-> Sub(m,46,48), opt2 |-> Sub(m,49,59), comp |-> m[60], name |-> Sub(m,61,90),
          compdata |-> Sub(m,6,30) \o Sub(m,31,37) \o Sub(m,39,45) \o Sub(m,49,59),
          extensible |-> TRUE, optcd |-> -1]
    [] Layout(m) = "TD2" ->
         [code |-> Sub(m,1,2), state |-> Sub(m,3,5), name |-> Sub(m,6,36),
          num |-> Sub(m,37,45), numcd |-> m[46], nat |-> Sub(m,47,49), dob |-> Sub(m,50,55), dobcd |-> m[56],
          sex |-> Sub(m,57,57), exp |-> Sub(m,58,63), expcd |-> m[64], opt |-> Sub(m,65,71), comp |-> m[72],
          opt2 |-> << >>, compdata |-> Sub(m,37,46) \o Sub(m,50,56) \o Sub(m,58,71),
          extensible |-> TRUE, optcd |-> -1]
    [] Layout(m) = "TD3" ->
         [code |-> Sub(m,1,2), state |-> Sub(m,3,5), name |-> Sub(m,6,44),
          num |-> Sub(m,45,53), numcd |-> m[54], nat |-> Sub(m,55,57), dob |-> Sub(m,58,63), dobcd |-> m[64],
          sex |-> Sub(m,65,65), exp |-> Sub(m,66,71), expcd |-> m[72], opt |-> Sub(m,73,86), optcd |-> m[87],
          comp |-> m[88], opt2 |-> << >>, compdata |-> Sub(m,45,54) \o Sub(m,58,64) \o Sub(m,66,87),
          extensible |-> FALSE]

\* ---- extended document number (TD1 / TD2: check-digit position holds '<', the number continues in
\*      the optional data field, followed by its check digit and a filler) -----------------------
Ext(r) == r.extensible /\ r.numcd = F /\ FirstFill(r.opt, 1) >= 3
FullNum(r)   == IF Ext(r) THEN r.num \o SubSeq(r.opt, 1, FirstFill(r.opt, 1) - 2) ELSE r.num
FullNumCd(r) == IF Ext(r) THEN r.opt[FirstFill(r.opt, 1) - 1] ELSE r.numcd
OptRest(r)   == IF Ext(r) THEN SubSeq(r.opt, FirstFill(r.opt, 1) + 1, Len(r.opt)) ELSE r.opt

\* ---- the property's first clause: such a zone must never be accepted --------------------------
MustReject(m) ==
  \/ Layout(m) = "none"
  \/ LET r == Raw(m) IN
     \/ Disagrees(FullNum(r), FullNumCd(r))
     \/ Disagrees(r.dob, r.dobcd)
     \/ Disagrees(r.exp, r.expcd)
     \/ (Layout(m) = "TD3" /\ Disagrees(r.opt, r.optcd))
     \/ Disagrees(r.compdata, r.comp)

\* ---- well-formedness (the zones the second clause speaks about) --------------------------------
AlnumThenFill(s) == \E k \in 1..Len(s) : (\A i \in 1..k : Digit(s[i]) \/ Letter(s[i])) /\ (\A i \in (k+1)..Len(s) : s[i] = F)
LettersThenFill(s) == \E k \in 1..Len(s) : (\A i \in 1..k : Letter(s[i])) /\ (\A i \in (k+1)..Len(s) : s[i] = F)
AllDigits(s) == \A i \in 1..Len(s) : Digit(s[i])
\* name: PRIMARY[<<SECONDARY] then fillers; components are letters separated by single fillers
NoDoubleFill(s) == \A i \in 1..(Len(s) - 1) : ~(s[i] = F /\ s[i+1] = F)
DoubleAt(s) == {i \in 1..(Len(s) - 1) : s[i] = F /\ s[i+1] = F}
NameOK(s) == LET t == TrimR(s) IN
             /\ t # << >> /\ Letter(t[1]) /\ (\A i \in 1..Len(t) : Letter(t[i]) \/ t[i] = F)
             /\ \/ NoDoubleFill(t)
                \/ \E i \in DoubleAt(t) : /\ i + 2 <= Len(t) /\ Letter(t[i + 2])
                                          /\ NoDoubleFill(SubSeq(t, 1, i)) /\ NoDoubleFill(SubSeq(t, i + 2, Len(t)))

\* document number field: letters / digits, special characters and blanks of the printed number replaced by single
\* fillers (Doc 9303-3 4.6: e.g. AB-12345 is written AB<12345), then fillers up to the field length
NumFieldOK(s) == LET t == TrimR(s) IN
                 /\ t # << >> /\ (Digit(t[1]) \/ Letter(t[1]))
                 /\ (\A i \in 1..Len(t) : Digit(t[i]) \/ Letter(t[i]) \/ t[i] = F)
                 /\ NoDoubleFill(t)

\* date of birth: YYMMDD where an unknown year, month or day is written as two fillers (Doc 9303-3 4.7: "if all or
\* part of the date of birth is unknown, the relevant character positions shall be completed with filler characters")
DateOK(s) == /\ Len(s) = 6
             /\ \A k \in {1, 3, 5} : (Digit(s[k]) /\ Digit(s[k + 1])) \/ (s[k] = F /\ s[k + 1] = F)

WellFormed(m) ==
  /\ Layout(m) # "none"
  /\ \A i \in 1..Len(m) : Alpha(m[i])
  /\ LET r == Raw(m) IN
     /\ Letter(r.code[1]) /\ (Letter(r.code[2]) \/ r.code[2] = F)
     /\ LettersThenFill(r.state) /\ LettersThenFill(r.nat)
     /\ NameOK(r.name)
     /\ IF r.extensible /\ r.numcd = F
        THEN Ext(r) /\ (\A i \in 1..Len(FullNum(r)) : Digit(FullNum(r)[i]) \/ Letter(FullNum(r)[i]))
        ELSE NumFieldOK(r.num)
     /\ CdOK(FullNum(r), FullNumCd(r))
     /\ DateOK(r.dob) /\ CdOK(r.dob, r.dobcd)
     /\ AllDigits(r.exp) /\ CdOK(r.exp, r.expcd)
     /\ r.sex[1] \in {15, 22, F}                     \* F, M, <
     /\ (Layout(m) = "TD3" => (CdOK(r.opt, r.optcd) \/ (r.optcd = F /\ AllFill(r.opt))))
     /\ CdOK(r.compdata, r.comp)

\* ---- decoded fields of a well-formed zone ---------------------------------------------------
SplitName(s) == LET t == TrimR(s) d == DoubleAt(t) IN
                IF d = {} THEN << Dec(t), << >> >>
                ELSE LET i == CHOOSE x \in d : \A y \in d : x <= y IN
                     << Dec(SubSeq(t, 1, i - 1)), Dec(SubSeq(t, i + 2, Len(t))) >>

Fields(m) == LET r == Raw(m) IN
  [code |-> Dec(r.code), state |-> Dec(r.state), num |-> Dec(FullNum(r)), nat |-> Dec(r.nat),
   dob |-> Dec(r.dob), sex |-> Dec(r.sex), exp |-> Dec(r.exp), opt |-> Dec(OptRest(r)), opt2 |-> Dec(r.opt2),
   primary |-> SplitName(r.name)[1], secondary |-> SplitName(r.name)[2]]

\* ---- MRZ information (key seed) -----------------------------------------------------------------
\* from the three key fields as a person would type them (decoded document number, dates)
Enc(s) == [i \in 1..Len(s) |-> IF s[i] = SP THEN F ELSE s[i]]
Pad9(s) == IF Len(s) >= 9 THEN s ELSE s \o [i \in 1..(9 - Len(s)) |-> F]
\* (a decoded date with unknown parts has blanks where the zone has fillers, in front as well: they are positions)
PadN(s, n) == IF Len(s) >= n THEN s ELSE s \o [i \in 1..(n - Len(s)) |-> F]
SeedFromFields(num, dob, exp) == LET n == Pad9(Enc(num)) d == PadN(Enc(dob), 6) e == PadN(Enc(exp), 6) IN
                                 n \o << CD(n) >> \o d \o << CD(d) >> \o e \o << CD(e) >>
\* directly from the zone
SeedFromMrz(m) == LET r == Raw(m) IN
                  FullNum(r) \o << FullNumCd(r) >> \o r.dob \o << r.dobcd >> \o r.exp \o << r.expcd >>
\* for every well-formed zone the routes agree
SeedsAgree(m) == SeedFromMrz(m) = SeedFromFields(Fields(m).num, Fields(m).dob, Fields(m).exp)
=============================================================================
