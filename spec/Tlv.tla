-------------------------------- MODULE Tlv --------------------------------
(***************************************************************************)
(* BER-TLV (ITU-T X.690 section 8.1) restricted to the limits the library  *)
(* documents: identifier <= 4 octets, <= 4 length octets after the first,  *)
(* nesting depth <= MaxDepth constructed levels, <= MaxNodes elements.      *)
(*                                                                         *)
(* A tree node is   [t |-> identifier octets, v |-> content octets]  (primitive)            *)
(*             or   [t |-> identifier octets, k |-> sequence of nodes] (constructed)        *)
(* The input of the top-level decoder is a concatenation of TLVs (a forest).                *)
(*                                                                         *)
(* X.690 rules transcribed here:                                            *)
(*  - identifier: low tag number form one octet; if bits 5..1 are all 1 the tag number      *)
(*    continues in following octets, the last one having bit 8 = 0 (8.1.2)                   *)
(*  - bit 6 of the first identifier octet: constructed (8.1.2.5)                             *)
(*  - length: short form 0..127; long form 0x81..0x84 + big-endian; 0x80 indefinite, only    *)
(*    for constructed encodings (8.1.3); 0xFF reserved; >4 length octets beyond the limits   *)
(*  - contents of an indefinite-length encoding end at the end-of-contents octets 00 00,     *)
(*    which occur ONLY there (8.1.5): 00 00 inside definite contents or at top level is not  *)
(*    an encoding of anything, and an indefinite encoding without them is incomplete         *)
(*  - contents of a definite constructed encoding are exactly filled by complete TLVs        *)
(* Deliberately lenient (the tree is still uniquely determined, nothing is lost or invented): *)
(*  non-minimal long-form tag numbers (1F 80 01, 1F 05), identifier 00 with non-zero length.  *)
(***************************************************************************)
EXTENDS Integers, Sequences

CONSTANTS MaxDepth, MaxNodes

Fail == [ok |-> FALSE, grey |-> FALSE, why |-> "malformed"]
FailW(w) == [ok |-> FALSE, grey |-> FALSE, why |-> w]
\* Grey: an identifier octet 00 that is not part of the end-of-contents octets (00 81 00, 00 01 AA ...).
\* X.690 reserves tag 0; what a decoder does with it is not stated by the property, so inputs
\* containing it are neither required to be accepted nor to be rejected and no tree is compared.
Grey == [ok |-> FALSE, grey |-> TRUE, why |-> "grey"]

\* ---- identifier -------------------------------------------------------------------------
RECURSIVE TagRest(_, _, _, _)
TagRest(bs, pos, end, acc) ==
  IF pos >= end THEN Fail                                   \* ran out of input inside the identifier
  ELSE IF Len(acc) >= 4 THEN Fail                           \* identifier would exceed 4 octets
  ELSE LET b == bs[pos] IN
       IF b >= 128 THEN TagRest(bs, pos + 1, end, Append(acc, b))
       ELSE [ok |-> TRUE, tag |-> Append(acc, b), next |-> pos + 1]

ParseTag(bs, pos, end) ==
  IF pos >= end THEN Fail
  ELSE LET b == bs[pos] IN
       IF b % 32 # 31 THEN [ok |-> TRUE, tag |-> << b >>, next |-> pos + 1]
       ELSE TagRest(bs, pos + 1, end, << b >>)

Constructed(tag) == (tag[1] \div 32) % 2 = 1

\* ---- length -----------------------------------------------------------------------------
RECURSIVE BigEndian(_, _, _)
BigEndian(bs, from, n) == IF n = 0 THEN 0 ELSE BigEndian(bs, from, n - 1) * 256 + bs[from + n - 1]

MinimalLenOctets(n) == IF n <= 127 THEN 1 ELSE IF n <= 255 THEN 2 ELSE IF n <= 65535 THEN 3
                       ELSE IF n <= 16777215 THEN 4 ELSE 5

\* result: len = -1 for the indefinite form; min = the field is the definite minimal form
ParseLen(bs, pos, end) ==
  IF pos >= end THEN Fail
  ELSE LET b == bs[pos] IN
       IF b <= 127 THEN [ok |-> TRUE, len |-> b, next |-> pos + 1, min |-> TRUE]
       ELSE IF b = 128 THEN [ok |-> TRUE, len |-> -1, next |-> pos + 1, min |-> FALSE]
       ELSE IF b <= 132 THEN
              LET k == b - 128 IN
              IF pos + 1 + k > end THEN Fail
              ELSE IF k = 4 /\ bs[pos + 1] >= 128 THEN Fail      \* >= 2^31 octets: longer than any input (and TLC integers are 32 bit)
              ELSE LET n == BigEndian(bs, pos + 1, k) IN
                   [ok |-> TRUE, len |-> n, next |-> pos + 1 + k, min |-> (MinimalLenOctets(n) = k + 1)]
       ELSE Fail

\* ---- forest -----------------------------------------------------------------------------
\* Items parses TLVs from pos up to (excluding) end.  indef: we are inside indefinite contents and
\* stop at the end-of-contents octets.  cnt counts elements decoded so far in the whole input.
\* depth = number of constructed encodings enclosing this forest.
RECURSIVE Items(_, _, _, _, _, _, _, _)
Items(bs, pos, end, depth, indef, cnt, acc, min) ==
  IF pos = end THEN
     (IF indef THEN FailW("indefinite-without-eoc")                \* missing end-of-contents
      ELSE [ok |-> TRUE, nodes |-> acc, next |-> pos, cnt |-> cnt, min |-> min])
  ELSE
  LET t == ParseTag(bs, pos, end) IN
  IF ~t.ok THEN Fail ELSE
  LET L == ParseLen(bs, t.next, end) IN
  IF ~L.ok THEN Fail ELSE
  IF t.tag = << 0 >> /\ L.len = 0 /\ L.next = t.next + 1 THEN       \* the two octets 00 00
     (IF indef THEN [ok |-> TRUE, nodes |-> acc, next |-> L.next, cnt |-> cnt, min |-> min]
      ELSE FailW("eoc-in-definite-contents"))                       \* EOC outside indefinite contents
  ELSE IF t.tag = << 0 >> THEN Grey
  ELSE IF cnt + 1 > MaxNodes THEN FailW("count-limit")
  ELSE IF Constructed(t.tag) THEN
     IF depth + 1 > MaxDepth THEN FailW("depth-limit")
     ELSE IF L.len = -1 THEN
        LET k == Items(bs, L.next, end, depth + 1, TRUE, cnt + 1, << >>, FALSE) IN
        IF ~k.ok THEN k
        ELSE Items(bs, k.next, end, depth, indef, k.cnt, Append(acc, [t |-> t.tag, k |-> k.nodes]), FALSE)
     ELSE IF L.len > end - L.next THEN Fail
     ELSE
        LET k == Items(bs, L.next, L.next + L.len, depth + 1, FALSE, cnt + 1, << >>, TRUE) IN
        IF ~k.ok THEN k
        ELSE Items(bs, L.next + L.len, end, depth, indef, k.cnt,
                   Append(acc, [t |-> t.tag, k |-> k.nodes]), min /\ L.min /\ k.min)
  ELSE
     IF L.len = -1 THEN FailW("indefinite-primitive")              \* indefinite primitive
     ELSE IF L.len > end - L.next THEN Fail
     ELSE Items(bs, L.next + L.len, end, depth, indef, cnt + 1,
                Append(acc, [t |-> t.tag, v |-> SubSeq(bs, L.next, L.next + L.len - 1)]), min /\ L.min)

\* Decode(bs): [ok, nodes, cnt, min]; min = the input uses only definite minimal length fields
Decode(bs) == Items(bs, 1, Len(bs) + 1, 0, FALSE, 0, << >>, TRUE)

\* ---- canonical (definite, minimal) re-encoding ---------------------------------------------
RECURSIVE Octets(_, _)
Octets(n, k) == IF k = 0 THEN << >> ELSE Append(Octets(n \div 256, k - 1), n % 256)

EncLen(n) == IF n <= 127 THEN << n >>
             ELSE LET k == MinimalLenOctets(n) - 1 IN << 128 + k >> \o Octets(n, k)

IsCons(node) == "k" \in DOMAIN node

RECURSIVE EncNode(_)
RECURSIVE EncForest(_)
EncForest(f) == IF f = << >> THEN << >> ELSE EncNode(Head(f)) \o EncForest(Tail(f))
EncNode(node) == LET c == IF IsCons(node) THEN EncForest(node.k) ELSE node.v IN
                 node.t \o EncLen(Len(c)) \o c

Canon(bs) == EncForest(Decode(bs).nodes)

\* ---- lookup -----------------------------------------------------------------------------
\* the occ-th (1-based) element of forest f whose identifier is tag, or "nil"
RECURSIVE Lookup(_, _, _)
Lookup(f, tag, occ) ==
  IF f = << >> THEN "nil"
  ELSE IF Head(f).t = tag THEN (IF occ = 1 THEN Head(f) ELSE Lookup(Tail(f), tag, occ - 1))
  ELSE Lookup(Tail(f), tag, occ)

\* ---- Unwrap: exactly one definite TLV spanning the whole input ------------------------------
Unwrap(bs) ==
  LET t == ParseTag(bs, 1, Len(bs) + 1) IN
  IF ~t.ok THEN Fail ELSE
  LET L == ParseLen(bs, t.next, Len(bs) + 1) IN
  IF ~L.ok \/ L.len = -1 THEN Fail
  ELSE IF L.len # Len(bs) + 1 - L.next THEN Fail
  ELSE [ok |-> TRUE, tag |-> t.tag, value |-> SubSeq(bs, L.next, Len(bs))]

\* ---- laws (checked by TLC on every input of the instance) --------------------------------------
\* number of input octets a forest accounts for when every length field is definite and minimal
Law_RoundTrip(bs) == LET d == Decode(bs) IN d.ok =>
                        LET c == EncForest(d.nodes) IN
                        /\ Decode(c).ok /\ Decode(c).nodes = d.nodes        \* decode(encode(t)) = t
                        /\ EncForest(Decode(c).nodes) = c                    \* idempotent
                        /\ Decode(c).min                                      \* output is in canonical form
                        /\ (d.min => c = bs)                                  \* canonical input is a fixed point
                        /\ (c = bs => d.min)
=============================================================================
