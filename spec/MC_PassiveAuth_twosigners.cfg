\* two signer infos, each checked against its own signing time
CONSTANTS
  K = 3
  TwoSigners = TRUE
INIT Init
NEXT Next
VIEW View
INVARIANTS SoundInv CompleteInv BasesGenuine
