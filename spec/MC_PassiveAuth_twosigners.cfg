\* two signer infos: the as-built rule "reference time = signing time of the first signer info" is EXPECTED
\* to break Soundness (a later signer info stating a time at which its certificate is not valid)
CONSTANTS
  K = 2
  TwoSigners = TRUE
INIT Init
NEXT Next
VIEW View
INVARIANTS SoundInv
