----------------------------- MODULE MC_Evidence -----------------------------
EXTENDS Evidence, TLC
Init == EInit
Next == ENext
Inv1 == GenuineVerifies
Inv2 == SingleTamperDetected(TRUE)
Inv3 == JointExceptionPasses
\* as built before the repair: the algorithm field of AA evidence is not compared
AsBuiltGap == ~SingleTamperDetected(FALSE)
\* as built: (r, n - s) verifies - TLC must find CongruentSignatureDetected false (known finding C14)
AsBuiltMalleable == ~CongruentSignatureDetected
Inv4 == OutOfRangeDetected
Emit == PrintT(<< "T", CamFields, CaFields, AaFields >>)
\* the expected offline vector of every (live set, live PA verdict, tamper): replayed into the real Verifier
EmitV == phase = "verified" => PrintT(<< "V", live, livePa, tamper, offline >>)
=============================================================================
