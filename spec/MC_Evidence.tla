----------------------------- MODULE MC_Evidence -----------------------------
EXTENDS Evidence, TLC
VARIABLE x
Init == x = 0
Next == UNCHANGED x
Inv1 == GenuineVerifies
Inv2 == SingleTamperDetected(TRUE)
Inv3 == JointExceptionPasses
\* as built before the repair: the algorithm field of AA evidence is not compared
AsBuiltGap == ~SingleTamperDetected(FALSE)
Emit == PrintT(<< "T", CamFields, CaFields, AaFields >>)
=============================================================================
