CONSTANTS
  MaxChunks = 20
  Ladder <- LadderSeq
  MaxTlv = 65535
  SfiOffsets = FALSE
  Sizes <- SizesL
  MaxLes = {1, 4, 5, 256}
  Caps = {0, 1}
  RejectOvers = {0, 100}
  HdrNs = {0, 3, 4}
  Policies = {"any"}
  SelSws = {"9000", "6A82", "6982"}
  Slack = {0, 7}
SPECIFICATION Spec
INVARIANTS Exact NotFound Bounded LoopInv
PROPERTY Terminates
