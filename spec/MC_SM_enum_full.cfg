CONSTANTS
  M = 16
  MaxEx = 3
  Statuses <- StatusSet
  Datas <- DataSet2
  InitSsc = {0}
  NakedRollback = TRUE
  AdvBudget = 2
SPECIFICATION Spec
INVARIANTS Emit
