# sourced by every /verif script: offline Go toolchain that can parse /repo/go.mod
export PATH=/opt/veriftools/go1.26.8/bin:$PATH
export GOFLAGS=-mod=mod GOPROXY=off GOSUMDB=off GOTOOLCHAIN=local
export VERIF_ROOT="${VERIF_ROOT:-$(cd "$(dirname "${BASH_SOURCE[0]}")/.." && pwd)}"
export VERIF_REPO="${VERIF_REPO:-/repo}"
